//! C27: the symbol names codegen's own Mangle implementations give to entity descriptors
//! (spec/Mangle.tla).  Records are written sorted by symbol so that collisions are adjacent.

use std::{
    fs,
    io::{BufWriter, Write},
    panic::{self, AssertUnwindSafe},
    path::PathBuf,
};

use hir::common::{
    ComptimeArgs, ComptimeLoc, ComptimeResult, FileName, Name, NaiveGlobalLoc, NaiveLambdaLoc,
};
use interner::Interner;
use la_arena::{Idx, IdxRange, RawIdx};
use serde_json::{Value, json};

fn idx<T>(n: u64) -> Idx<T> {
    Idx::from_raw(RawIdx::from(n as u32))
}

pub fn main(args: &[String]) {
    let input = crate::get_arg(args, "--descs").unwrap();
    let out = crate::get_arg(args, "--out").unwrap();
    let root = PathBuf::from(crate::get_arg(args, "--root").unwrap());
    let cwd = root.join("cwd");
    let mod_dir = root.join("mods");
    fs::create_dir_all(&cwd).unwrap();
    fs::create_dir_all(&mod_dir).unwrap();
    std::env::set_current_dir(&cwd).unwrap();
    let descs: Vec<Value> = serde_json::from_str(&fs::read_to_string(input).unwrap()).unwrap();
    let mut interner = Interner::default();
    crate::pipeline::install_panic_hook();
    let mut recs: Vec<(String, Value)> = Vec::new();
    for d in &descs {
        let p = &d["path"];
        let mut path = if p["mod"].as_bool().unwrap() {
            mod_dir.clone()
        } else {
            cwd.clone()
        };
        for c in p["dirs"].as_array().unwrap() {
            path.push(c["raw"].as_str().unwrap());
        }
        path.push(p["file"]["raw"].as_str().unwrap());
        let file = FileName(interner.intern(&path.to_string_lossy()));
        let e = &d["ent"];
        let gen_id = e["gen"].as_i64().unwrap();
        let cargs = (gen_id >= 0).then(|| {
            ComptimeArgs::new(IdxRange::<ComptimeResult>::new(
                idx(gen_id as u64)..idx(gen_id as u64 + 1),
            ))
        });
        let loc = if e["k"] == "global" {
            NaiveGlobalLoc {
                file,
                name: Name(interner.intern(e["name"]["raw"].as_str().unwrap())),
            }
            .make_concrete(cargs)
            .wrap()
        } else {
            NaiveLambdaLoc {
                file,
                expr: idx(0),
                lambda: idx(e["idx"].as_u64().unwrap()),
            }
            .make_concrete(cargs)
            .wrap()
        };
        let ct = e["ct"].as_i64().unwrap();
        let data = e["data"].as_str().unwrap().to_string();
        let r = panic::catch_unwind(AssertUnwindSafe(|| {
            if ct >= 0 {
                let cl = ComptimeLoc {
                    loc,
                    expr: idx(0),
                    comptime: idx(ct as u64),
                };
                codegen::verif_api::mangle_comptime(
                    cl,
                    (!data.is_empty()).then_some(data.as_str()),
                    &mod_dir,
                    &interner,
                )
            } else {
                codegen::verif_api::mangle_loc(loc, &mod_dir, &interner)
            }
        }));
        match r {
            Ok(sym) => {
                let internal = sym.starts_with("_CI");
                recs.push((
                    sym.clone(),
                    json!({"d": d, "sym": sym, "starts_internal": internal, "panic": ""}),
                ));
            }
            Err(_) => {
                let (m, l) = crate::pipeline::take_panic();
                recs.push((
                    format!("~panic{}", recs.len()),
                    json!({"d": d, "sym": format!("~panic{}", recs.len()), "starts_internal": false,
                           "panic": format!("{} @ {}", m, l)}),
                ));
            }
        }
    }
    recs.sort_by(|a, b| a.0.cmp(&b.0));
    let mut w = BufWriter::new(fs::File::create(out).unwrap());
    for (_, r) in recs {
        writeln!(w, "{}", r).unwrap();
    }
    let _ = codegen::verif_api::mangle_internal("x");
}
