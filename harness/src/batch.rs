//! Parent side: run many jobs, each in its own child process (one compilation per process),
//! N at a time, with a wall-clock limit. Crashes / timeouts of the child are recorded events.

use std::{
    fs,
    io::{BufRead, BufReader, Write},
    path::{Path, PathBuf},
    process::{Command, Stdio},
    sync::{Arc, Mutex, atomic::{AtomicUsize, Ordering}},
    time::{Duration, Instant},
};

use crate::pipeline::{Job, JobResult, PanicInfo};

pub fn child_main(jobdir: &Path) {
    let job: Job = serde_json::from_str(&fs::read_to_string(jobdir.join("job.json")).unwrap())
        .expect("job.json");
    crate::pipeline::install_panic_hook();
    if !job.warm.is_empty() {
        // the earlier compilation runs on a thread of its own, like the repository's own tests do
        // (several compilations per process, one per thread): thread-local tables start fresh,
        // the process-global ones (codegen's layout / final-type tables) are shared
        let warm_dir = jobdir.join("warm");
        let back = std::env::current_dir().unwrap();
        if std::env::set_current_dir(&warm_dir).is_ok() {
            let mut warm_job = job.clone();
            warm_job.files = job.warm.clone();
            warm_job.warm.clear();
            warm_job.run = false;
            warm_job.link = false;
            let progress = jobdir.join("progress_warm");
            let handle = std::thread::Builder::new()
                .stack_size(256 << 20)
                .spawn(move || {
                    let _ = std::panic::catch_unwind(std::panic::AssertUnwindSafe(|| {
                        crate::pipeline::run_job(&warm_job, &progress)
                    }));
                })
                .expect("spawn warm-up thread");
            let _ = handle.join();
            let _ = crate::pipeline::take_panic();
        }
        std::env::set_current_dir(back).unwrap();
    }
    let res = crate::pipeline::run_job(&job, &jobdir.join("progress"));
    fs::write(jobdir.join("result.json"), serde_json::to_string(&res).unwrap()).unwrap();
}

fn run_one(exe: &Path, workroot: &Path, idx: usize, job: &Job) -> JobResult {
    let jobdir = workroot.join(format!("j{}", idx));
    let _ = fs::remove_dir_all(&jobdir);
    let src = jobdir.join("src");
    fs::create_dir_all(&src).unwrap();
    for (name, text) in &job.files {
        let p = src.join(name);
        if let Some(parent) = p.parent() {
            fs::create_dir_all(parent).unwrap();
        }
        fs::write(&p, text).unwrap();
    }
    if !job.warm.is_empty() {
        let warm = jobdir.join("warm");
        for (name, text) in &job.warm {
            let p = warm.join(name);
            if let Some(parent) = p.parent() {
                fs::create_dir_all(parent).unwrap();
            }
            fs::write(&p, text).unwrap();
        }
    }
    fs::write(jobdir.join("job.json"), serde_json::to_string(job).unwrap()).unwrap();
    let out = fs::File::create(jobdir.join("compiler_stdout")).unwrap();
    let start = Instant::now();
    let mut child = Command::new(exe)
        .arg("one")
        .arg(&jobdir)
        .current_dir(&src)
        .stdin(Stdio::null())
        .stdout(out)
        .stderr(Stdio::null())
        .spawn()
        .expect("spawn child");
    let limit = Duration::from_millis(job.timeout_ms + 5000);
    let mut crash = String::new();
    loop {
        match child.try_wait().unwrap() {
            Some(status) => {
                #[cfg(unix)]
                {
                    use std::os::unix::process::ExitStatusExt;
                    if let Some(sig) = status.signal() {
                        crash = format!("signal:{}", sig);
                    }
                }
                if crash.is_empty() && !status.success() {
                    crash = format!("exit:{}", status.code().unwrap_or(-1));
                }
                break;
            }
            None => {
                if start.elapsed() > limit {
                    let _ = child.kill();
                    let _ = child.wait();
                    crash = "timeout".into();
                    break;
                }
                std::thread::sleep(Duration::from_millis(2));
            }
        }
    }
    let mut res: JobResult = match fs::read_to_string(jobdir.join("result.json")) {
        Ok(s) => serde_json::from_str(&s).unwrap_or_default(),
        Err(_) => JobResult::default(),
    };
    res.id = job.id.clone();
    if res.stages.is_empty() && res.panic.is_none() && !crash.is_empty() || crash == "timeout" || crash.starts_with("signal") {
        // child died without a result: the last line of the progress file is the stage
        let stage = fs::read_to_string(jobdir.join("progress"))
            .ok()
            .and_then(|s| s.lines().last().map(|l| l.to_string()))
            .unwrap_or_else(|| "start".into());
        if res.panic.is_none() {
            res.panic = Some(PanicInfo {
                stage,
                msg: crash.clone(),
                loc: String::new(),
            });
        }
    }
    if !Path::new(&jobdir.join("result.json")).exists() && crash.is_empty() {
        crash = "no-result".into();
    }
    res.crash = crash;
    if let Ok(bytes) = fs::read(jobdir.join("compiler_stdout")) {
        if res.crash.starts_with("exit:") {
            let text = String::from_utf8_lossy(&bytes);
            let lines: Vec<&str> = text.lines().filter(|l| !l.trim().is_empty() && !l.contains('\u{1b}')).collect();
            let tail: Vec<&str> = lines.iter().rev().take(3).rev().cloned().collect();
            res.compiler_stdout_tail = tail.join(" | ").chars().take(300).collect();
        }
        res.compiler_stdout_markers = bytes
            .iter()
            .filter(|b| (1..=8).contains(*b))
            .map(|b| (b'0' + b) as char)
            .collect();
    }
    if res.wall_ms == 0 {
        res.wall_ms = start.elapsed().as_millis() as u64;
    }
    if !job.keep {
        let _ = fs::remove_dir_all(&jobdir);
    }
    res
}

pub fn batch_main(jobs_path: &Path, out_path: &Path, workroot: &Path, par: usize) {
    let exe = std::env::current_exe().unwrap();
    let f = BufReader::new(fs::File::open(jobs_path).expect("jobs file"));
    let jobs: Vec<Job> = f
        .lines()
        .map(|l| l.unwrap())
        .filter(|l| !l.trim().is_empty())
        .map(|l| serde_json::from_str(&l).expect("job line"))
        .collect();
    fs::create_dir_all(workroot).unwrap();
    let n = jobs.len();
    let jobs = Arc::new(jobs);
    let results: Arc<Mutex<Vec<Option<JobResult>>>> = Arc::new(Mutex::new(vec![None; n]));
    let next = Arc::new(AtomicUsize::new(0));
    let mut handles = Vec::new();
    for _ in 0..par.max(1) {
        let (jobs, results, next, exe, workroot) = (
            jobs.clone(),
            results.clone(),
            next.clone(),
            exe.clone(),
            PathBuf::from(workroot),
        );
        handles.push(std::thread::spawn(move || loop {
            let i = next.fetch_add(1, Ordering::SeqCst);
            if i >= jobs.len() {
                break;
            }
            let r = run_one(&exe, &workroot, i, &jobs[i]);
            results.lock().unwrap()[i] = Some(r);
        }));
    }
    for h in handles {
        h.join().unwrap();
    }
    let mut out = std::io::BufWriter::new(fs::File::create(out_path).unwrap());
    for r in results.lock().unwrap().iter() {
        writeln!(out, "{}", serde_json::to_string(r.as_ref().unwrap()).unwrap()).unwrap();
    }
}
