//! capy-verif: conformance harness binding the TLA+ specifications in /verif/spec to the
//! crates of /repo's current working tree.  All output goes to files (stdout of the code under
//! test is noisy in debug builds).

mod batch;
mod layout;
mod lexparse;
mod mangle;
mod pipeline;
mod resolve;
mod topo_replay;
mod tyrel;

use std::path::PathBuf;

fn arg(args: &[String], name: &str) -> Option<String> {
    args.iter()
        .position(|a| a == name)
        .and_then(|i| args.get(i + 1).cloned())
}

fn main() {
    let args: Vec<String> = std::env::args().collect();
    if args.len() < 2 {
        eprintln!("usage: capy-verif <subcommand> ...");
        std::process::exit(2);
    }
    match args[1].as_str() {
        "one" => batch::child_main(&PathBuf::from(&args[2])),
        "batch" => {
            let jobs = PathBuf::from(arg(&args, "--jobs").expect("--jobs"));
            let out = PathBuf::from(arg(&args, "--out").expect("--out"));
            let work = PathBuf::from(arg(&args, "--work").expect("--work"));
            let par = arg(&args, "--par").and_then(|s| s.parse().ok()).unwrap_or(12);
            batch::batch_main(&jobs, &out, &work, par);
        }
        "lex-enum" => lexparse::lex_enum(&args[2..]),
        "lex-file" => lexparse::lex_file(&args[2..]),
        "linecol-enum" => lexparse::linecol_enum(&args[2..]),
        "parse-enum" => lexparse::parse_enum(&args[2..]),
        "parse-file" => lexparse::parse_file(&args[2..]),
        "parse-exprs" => lexparse::parse_exprs(&args[2..]),
        "parse-debug" => {
            let text = args[2].clone();
            let toks = lexer::lex(&text);
            let p = parser::parse_source_file(&toks, &text);
            println!("{:?}", p.errors().len());
        }
        "resolve" => resolve::main(&args[2..]),
        "layout" => layout::main(&args[2..]),
        "mangle" => mangle::main(&args[2..]),
        "tyrel" => tyrel::main(&args[2..]),
        "topo-replay" => topo_replay::main(&args[2..]),
        other => {
            eprintln!("unknown subcommand {}", other);
            std::process::exit(2);
        }
    }
}

pub fn get_arg(args: &[String], name: &str) -> Option<String> {
    arg(args, name)
}
