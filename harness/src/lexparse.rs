//! Library-level observation of lexer / parser / line index (C22 C23 C24 C25).
//! Enumerations run in child processes over index ranges; a child that hangs, aborts or
//! overflows its stack is killed / reaped by the parent and the input in progress is recorded
//! as an event (`timeout`, `signal:<n>`), then the enumeration resumes after it.

use std::{
    fs,
    io::{BufRead, BufReader, BufWriter, Write},
    os::unix::fs::FileExt,
    panic::{self, AssertUnwindSafe},
    path::{Path, PathBuf},
    process::{Command, Stdio},
    time::{Duration, Instant},
};

use ast::{AstNode, AstToken};
use serde_json::{Value, json};
use syntax::SyntaxTree;
use text_size::TextSize;

use crate::get_arg;

// ------------------------------------------------------------------------------------------
// generic chunked driver

/// `total` inputs, split over `par` children.  `child_args` are passed through; the child is
/// re-invoked as `<exe> <sub> --child --from A --to B --out F --progress P <child_args..>`.
/// Returns the list of (index, event) for inputs that killed the child.
fn drive(
    sub: &str,
    total: u64,
    par: usize,
    out: &Path,
    child_args: &[String],
    stall_ms: u64,
) -> Vec<(u64, String)> {
    let exe = std::env::current_exe().unwrap();
    let par = par.max(1) as u64;
    let chunk = total.div_ceil(par).max(1);
    let mut handles = Vec::new();
    for k in 0..par {
        let from = k * chunk;
        let to = ((k + 1) * chunk).min(total);
        if from >= to {
            continue;
        }
        let exe = exe.clone();
        let out = PathBuf::from(format!("{}.part{}", out.display(), k));
        let prog = PathBuf::from(format!("{}.prog{}", out.display(), k));
        let sub = sub.to_string();
        let child_args = child_args.to_vec();
        handles.push(std::thread::spawn(move || {
            let mut events = Vec::new();
            let mut cur = from;
            let _ = fs::remove_file(&out);
            while cur < to {
                fs::write(&prog, cur.to_le_bytes()).unwrap();
                let mut child = Command::new(&exe)
                    .arg(&sub)
                    .arg("--child")
                    .arg("--from")
                    .arg(cur.to_string())
                    .arg("--to")
                    .arg(to.to_string())
                    .arg("--out")
                    .arg(&out)
                    .arg("--progress")
                    .arg(&prog)
                    .args(&child_args)
                    .stdin(Stdio::null())
                    .stdout(Stdio::null())
                    .stderr(Stdio::null())
                    .spawn()
                    .expect("spawn");
                let mut last = cur;
                let mut last_change = Instant::now();
                let event;
                loop {
                    match child.try_wait().unwrap() {
                        Some(st) => {
                            use std::os::unix::process::ExitStatusExt;
                            event = if st.success() {
                                None
                            } else if let Some(s) = st.signal() {
                                Some(format!("signal:{}", s))
                            } else {
                                Some(format!("exit:{}", st.code().unwrap_or(-1)))
                            };
                            break;
                        }
                        None => {
                            let mut b = [0u8; 8];
                            let p = fs::File::open(&prog)
                                .ok()
                                .and_then(|f| f.read_exact_at(&mut b, 0).ok())
                                .map(|_| u64::from_le_bytes(b))
                                .unwrap_or(last);
                            if p != last {
                                last = p;
                                last_change = Instant::now();
                            } else if last_change.elapsed() > Duration::from_millis(stall_ms) {
                                let _ = child.kill();
                                let _ = child.wait();
                                event = Some("timeout".to_string());
                                break;
                            }
                            std::thread::sleep(Duration::from_millis(5));
                        }
                    }
                }
                match event {
                    None => break,
                    Some(ev) => {
                        let mut b = [0u8; 8];
                        let p = fs::File::open(&prog)
                            .ok()
                            .and_then(|f| f.read_exact_at(&mut b, 0).ok())
                            .map(|_| u64::from_le_bytes(b))
                            .unwrap_or(cur);
                        events.push((p, ev));
                        cur = p + 1;
                    }
                }
            }
            let _ = fs::remove_file(&prog);
            (out, events)
        }));
    }
    let mut all_events = Vec::new();
    let mut w = BufWriter::new(fs::File::create(out).unwrap());
    for h in handles {
        let (part, events) = h.join().unwrap();
        if let Ok(f) = fs::File::open(&part) {
            for line in BufReader::new(f).lines() {
                let line = line.unwrap();
                // a killed child may leave a torn last line
                if line.ends_with('}') {
                    writeln!(w, "{}", line).unwrap();
                }
            }
        }
        let _ = fs::remove_file(&part);
        all_events.extend(events);
    }
    all_events
}

struct ChildCtx {
    from: u64,
    to: u64,
    out: BufWriter<fs::File>,
    progress: fs::File,
}

fn child_ctx(args: &[String]) -> ChildCtx {
    let from = get_arg(args, "--from").unwrap().parse().unwrap();
    let to = get_arg(args, "--to").unwrap().parse().unwrap();
    let out = fs::OpenOptions::new()
        .create(true)
        .append(true)
        .open(get_arg(args, "--out").unwrap())
        .unwrap();
    let progress = fs::OpenOptions::new()
        .write(true)
        .create(true)
        .truncate(false)
        .open(get_arg(args, "--progress").unwrap())
        .unwrap();
    // address-space limit: a diverging parser must not take the machine down
    unsafe {
        let lim = libc::rlimit {
            rlim_cur: 6 << 30,
            rlim_max: 6 << 30,
        };
        libc::setrlimit(libc::RLIMIT_AS, &lim);
    }
    crate::pipeline::install_panic_hook();
    ChildCtx {
        from,
        to,
        out: BufWriter::new(out),
        progress,
    }
}

impl ChildCtx {
    fn mark(&mut self, idx: u64) {
        let _ = self.out.flush();
        let _ = self.progress.write_all_at(&idx.to_le_bytes(), 0);
    }
}

/// index -> sequence of symbol indices; all sequences of length 0..=maxlen over `k` symbols,
/// shorter first.
fn seq_of_index(mut idx: u64, k: u64, maxlen: u32) -> Vec<usize> {
    let mut len = 0u32;
    let mut count = 1u64;
    while len <= maxlen {
        if idx < count {
            break;
        }
        idx -= count;
        count *= k;
        len += 1;
    }
    let mut v = vec![0usize; len as usize];
    for slot in v.iter_mut().rev() {
        *slot = (idx % k) as usize;
        idx /= k;
    }
    v
}

fn space_size(k: u64, maxlen: u32) -> u64 {
    let mut total = 0u64;
    let mut count = 1u64;
    for _ in 0..=maxlen {
        total += count;
        count *= k;
    }
    total
}

fn panic_text(_e: Box<dyn std::any::Any + Send>) -> String {
    let (msg, loc) = crate::pipeline::take_panic();
    format!("{} @ {}", msg, loc)
}

// ------------------------------------------------------------------------------------------
// C22 lexer

fn lex_record(text: &str) -> Value {
    let r = panic::catch_unwind(AssertUnwindSafe(|| {
        let toks = lexer::lex(text);
        let mut v = Vec::with_capacity(toks.len());
        for i in 0..toks.len() {
            let r = toks.range(i);
            v.push(json!([
                format!("{:?}", toks.kind(i)),
                u32::from(r.start()),
                u32::from(r.end())
            ]));
        }
        v
    }));
    let cps: Vec<u32> = text.chars().map(|c| c as u32).collect();
    let widths: Vec<u32> = text.chars().map(|c| c.len_utf8() as u32).collect();
    match r {
        Ok(v) => json!({"cp": cps, "w": widths, "len": text.len(), "toks": v, "panic": ""}),
        Err(e) => {
            json!({"cp": cps, "w": widths, "len": text.len(), "toks": [], "panic": panic_text(e)})
        }
    }
}

pub fn lex_enum(args: &[String]) {
    let alphabet: Vec<u32> =
        serde_json::from_str(&get_arg(args, "--alphabet").expect("--alphabet")).unwrap();
    let maxlen: u32 = get_arg(args, "--maxlen").unwrap().parse().unwrap();
    let k = alphabet.len() as u64;
    if args.iter().any(|a| a == "--child") {
        let mut c = child_ctx(args);
        for idx in c.from..c.to {
            c.mark(idx);
            let s: String = seq_of_index(idx, k, maxlen)
                .into_iter()
                .map(|i| char::from_u32(alphabet[i]).unwrap())
                .collect();
            let rec = lex_record(&s);
            writeln!(c.out, "{}", rec).unwrap();
        }
        c.out.flush().unwrap();
        return;
    }
    let out = PathBuf::from(get_arg(args, "--out").unwrap());
    let par = get_arg(args, "--par").and_then(|s| s.parse().ok()).unwrap_or(8);
    let total = space_size(k, maxlen);
    let pass = vec![
        "--alphabet".to_string(),
        get_arg(args, "--alphabet").unwrap(),
        "--maxlen".to_string(),
        maxlen.to_string(),
    ];
    let events = drive("lex-enum", total, par, &out, &pass, 5000);
    let mut f = fs::OpenOptions::new().append(true).open(&out).unwrap();
    for (idx, ev) in &events {
        let s: String = seq_of_index(*idx, k, maxlen)
            .into_iter()
            .map(|i| char::from_u32(alphabet[i]).unwrap())
            .collect();
        let cps: Vec<u32> = s.chars().map(|c| c as u32).collect();
        let widths: Vec<u32> = s.chars().map(|c| c.len_utf8() as u32).collect();
        writeln!(
            f,
            "{}",
            json!({"cp": cps, "w": widths, "len": s.len(), "toks": [], "panic": ev})
        )
        .unwrap();
    }
}

/// lex every line-delimited JSON string of --in (arbitrary texts: corpus, mutants, random)
pub fn lex_file(args: &[String]) {
    let input = get_arg(args, "--in").unwrap();
    let out = get_arg(args, "--out").unwrap();
    crate::pipeline::install_panic_hook();
    let mut w = BufWriter::new(fs::File::create(out).unwrap());
    for line in BufReader::new(fs::File::open(input).unwrap()).lines() {
        let line = line.unwrap();
        if line.is_empty() {
            continue;
        }
        let text: String = serde_json::from_str(&line).unwrap();
        let mut rec = lex_record(&text);
        // long texts: keep the record small, the token triples are what is checked
        if text.len() > 24 {
            rec["cp"] = json!([]);
            rec["w"] = json!([]);
            // character boundaries are checked here because cp/w are dropped
            let mut ok = true;
            if let Some(toks) = rec["toks"].as_array() {
                for t in toks {
                    let s = t[1].as_u64().unwrap() as usize;
                    let e = t[2].as_u64().unwrap() as usize;
                    if !text.is_char_boundary(s) || !text.is_char_boundary(e) {
                        ok = false;
                    }
                }
            }
            rec["boundaries_ok"] = json!(ok);
            rec["long"] = json!(true);
        }
        writeln!(w, "{}", rec).unwrap();
    }
}

// ------------------------------------------------------------------------------------------
// C25 line index

pub fn linecol_enum(args: &[String]) {
    let alphabet: Vec<u32> = serde_json::from_str(&get_arg(args, "--alphabet").unwrap()).unwrap();
    let maxlen: u32 = get_arg(args, "--maxlen").unwrap().parse().unwrap();
    let k = alphabet.len() as u64;
    if args.iter().any(|a| a == "--child") {
        let mut c = child_ctx(args);
        for idx in c.from..c.to {
            c.mark(idx);
            let s: String = seq_of_index(idx, k, maxlen)
                .into_iter()
                .map(|i| char::from_u32(alphabet[i]).unwrap())
                .collect();
            let bytes = s.as_bytes();
            let r = panic::catch_unwind(AssertUnwindSafe(|| {
                let li = line_index::LineIndex::new(&s);
                let mut lc = Vec::new();
                for o in 0..=s.len() {
                    let (l, c) = li.line_col(TextSize::from(o as u32));
                    lc.push(json!([l.0, c.0]));
                }
                lc
            }));
            let rec = match r {
                Ok(lc) => json!({"b": bytes, "lc": lc, "panic": ""}),
                Err(e) => json!({"b": bytes, "lc": [], "panic": panic_text(e)}),
            };
            writeln!(c.out, "{}", rec).unwrap();
        }
        c.out.flush().unwrap();
        return;
    }
    let out = PathBuf::from(get_arg(args, "--out").unwrap());
    let par = get_arg(args, "--par").and_then(|s| s.parse().ok()).unwrap_or(8);
    let total = space_size(k, maxlen);
    let pass = vec![
        "--alphabet".to_string(),
        get_arg(args, "--alphabet").unwrap(),
        "--maxlen".to_string(),
        maxlen.to_string(),
    ];
    let events = drive("linecol-enum", total, par, &out, &pass, 5000);
    let mut f = fs::OpenOptions::new().append(true).open(&out).unwrap();
    for (idx, ev) in &events {
        writeln!(f, "{}", json!({"b": [], "lc": [], "panic": ev, "idx": idx})).unwrap();
    }
}

// ------------------------------------------------------------------------------------------
// C23 parser

fn leaves_of(tree: &SyntaxTree) -> Vec<Value> {
    tree.root()
        .descendant_tokens(tree)
        .map(|t| {
            let r = t.range(tree);
            json!([format!("{:?}", t.kind(tree)), u32::from(r.start()), u32::from(r.end())])
        })
        .collect()
}

fn parse_record(text: &str, repl: bool, full: bool) -> Value {
    let start = Instant::now();
    let r = panic::catch_unwind(AssertUnwindSafe(|| {
        let toks = lexer::lex(text);
        let parse = if repl {
            parser::parse_repl_line(&toks, text)
        } else {
            parser::parse_source_file(&toks, text)
        };
        let tree = parse.syntax_tree();
        let ntok = toks.len();
        let leaves = leaves_of(tree);
        let mut tokv = Vec::with_capacity(ntok);
        for i in 0..ntok {
            let r = toks.range(i);
            tokv.push(json!([
                format!("{:?}", toks.kind(i)),
                u32::from(r.start()),
                u32::from(r.end())
            ]));
        }
        let nodes = tree.root().descendant_nodes(tree).count() + 1;
        let root_text_ok = tree.root().text(tree) == text;
        let mut errs = Vec::new();
        for e in parse.errors() {
            let d = diagnostics::Diagnostic::from_syntax(*e);
            let r = d.range();
            let missing = matches!(e.kind, parser::SyntaxErrorKind::Missing { .. });
            errs.push(json!([u32::from(r.start()), u32::from(r.end()), missing]));
        }
        (tokv, leaves, nodes, root_text_ok, errs)
    }));
    let micros = start.elapsed().as_micros() as u64;
    match r {
        Ok((tokv, leaves, nodes, root_text_ok, errs)) => {
            let same = tokv == leaves;
            let mut rec = json!({
                "len": text.len(), "repl": repl, "outcome": "done", "ntok": tokv.len(),
                "nleaves": leaves.len(), "leaves_eq_tokens": same, "root_text_ok": root_text_ok,
                "nodes": nodes, "nerr": errs.len(), "errs": errs, "micros": micros, "panic": ""
            });
            if full || !same {
                rec["toks"] = json!(tokv);
                rec["leaves"] = json!(leaves);
            }
            rec
        }
        Err(e) => json!({
            "len": text.len(), "repl": repl, "outcome": "panic", "ntok": 0, "nleaves": 0,
            "leaves_eq_tokens": false, "root_text_ok": false, "nodes": 0, "nerr": 0, "errs": [],
            "micros": micros, "panic": panic_text(e)
        }),
    }
}

pub fn parse_enum(args: &[String]) {
    let tokens: Vec<String> = serde_json::from_str(&get_arg(args, "--tokens").unwrap()).unwrap();
    let maxlen: u32 = get_arg(args, "--maxlen").unwrap().parse().unwrap();
    let full = args.iter().any(|a| a == "--full");
    let k = tokens.len() as u64;
    let text_of = |idx: u64| -> (Vec<usize>, String) {
        let seq = seq_of_index(idx, k, maxlen);
        let text = seq
            .iter()
            .map(|i| tokens[*i].as_str())
            .collect::<Vec<_>>()
            .join(" ");
        (seq, text)
    };
    if args.iter().any(|a| a == "--child") {
        let mut c = child_ctx(args);
        for idx in c.from..c.to {
            c.mark(idx);
            let (seq, text) = text_of(idx);
            for repl in [false, true] {
                let mut rec = parse_record(&text, repl, full);
                rec["seq"] = json!(seq);
                rec["idx"] = json!(idx);
                writeln!(c.out, "{}", rec).unwrap();
            }
            // a killed child must not lose finished records
            if idx % 64 == 0 {
                c.out.flush().unwrap();
            }
        }
        c.out.flush().unwrap();
        return;
    }
    let out = PathBuf::from(get_arg(args, "--out").unwrap());
    let par = get_arg(args, "--par").and_then(|s| s.parse().ok()).unwrap_or(8);
    let total = space_size(k, maxlen);
    let mut pass = vec![
        "--tokens".to_string(),
        get_arg(args, "--tokens").unwrap(),
        "--maxlen".to_string(),
        maxlen.to_string(),
    ];
    if full {
        pass.push("--full".into());
    }
    let events = drive("parse-enum", total, par, &out, &pass, 4000);
    let mut f = fs::OpenOptions::new().append(true).open(&out).unwrap();
    for (idx, ev) in &events {
        let (seq, text) = text_of(*idx);
        writeln!(
            f,
            "{}",
            json!({"len": text.len(), "repl": false, "outcome": ev, "ntok": 0, "nleaves": 0,
                   "leaves_eq_tokens": false, "root_text_ok": false, "nodes": 0, "nerr": 0,
                   "errs": [], "micros": 0, "panic": ev, "seq": seq, "idx": idx, "text": text})
        )
        .unwrap();
    }
}

/// parse every JSON string line of --in, one input at a time under the chunked driver
pub fn parse_file(args: &[String]) {
    let input = get_arg(args, "--in").unwrap();
    let texts: Vec<String> = BufReader::new(fs::File::open(&input).unwrap())
        .lines()
        .map(|l| l.unwrap())
        .filter(|l| !l.is_empty())
        .map(|l| serde_json::from_str::<String>(&l).unwrap())
        .collect();
    if args.iter().any(|a| a == "--child") {
        let mut c = child_ctx(args);
        for idx in c.from..c.to {
            c.mark(idx);
            for repl in [false, true] {
                let mut rec = parse_record(&texts[idx as usize], repl, false);
                rec["idx"] = json!(idx);
                writeln!(c.out, "{}", rec).unwrap();
            }
            c.out.flush().unwrap();
        }
        return;
    }
    let out = PathBuf::from(get_arg(args, "--out").unwrap());
    let par = get_arg(args, "--par").and_then(|s| s.parse().ok()).unwrap_or(8);
    let pass = vec!["--in".to_string(), input.clone()];
    let events = drive("parse-file", texts.len() as u64, par, &out, &pass, 10000);
    let mut f = fs::OpenOptions::new().append(true).open(&out).unwrap();
    for (idx, ev) in &events {
        writeln!(
            f,
            "{}",
            json!({"len": texts[*idx as usize].len(), "repl": false, "outcome": ev, "ntok": 0,
                   "nleaves": 0, "leaves_eq_tokens": false, "root_text_ok": false, "nodes": 0,
                   "nerr": 0, "errs": [], "micros": 0, "panic": ev, "idx": idx})
        )
        .unwrap();
    }
}

// ------------------------------------------------------------------------------------------
// C24 expression trees

fn expr_json(e: ast::Expr, tree: &SyntaxTree) -> Value {
    use ast::Expr::*;
    let sub = |x: Option<ast::Expr>| match x {
        Some(x) => expr_json(x, tree),
        None => json!({"k": "missing"}),
    };
    match e {
        Binary(b) => json!({
            "k": "bin",
            "op": b.op(tree).map(|o| o.text(tree).to_string()).unwrap_or_default(),
            "l": sub(b.lhs(tree)), "r": sub(b.rhs(tree))}),
        Unary(u) => json!({
            "k": "un",
            "op": u.op(tree).map(|o| o.text(tree).to_string()).unwrap_or_default(),
            "e": sub(u.expr(tree))}),
        Paren(p) => json!({"k": "paren", "e": sub(p.expr(tree))}),
        Ref(r) => json!({
            "k": "ref", "mut": r.mutable(tree).is_some(), "e": sub(r.expr(tree))}),
        Deref(d) => json!({"k": "deref", "e": sub(d.pointer(tree))}),
        Propagate(p) => json!({"k": "try", "e": sub(p.expr(tree))}),
        Cast(c) => json!({
            "k": "cast",
            "ty": c.ty(tree).and_then(|t| t.expr(tree)).map(|t| expr_json(t, tree)),
            "e": c.expr(tree).map(|x| expr_json(x, tree))}),
        Call(c) => json!({
            "k": "call", "f": sub(c.callee(tree)),
            "args": c.arg_list(tree).map(|al| al.args(tree)
                .map(|a| sub(a.value(tree))).collect::<Vec<_>>()).unwrap_or_default()}),
        IndexExpr(i) => json!({
            "k": "index", "e": sub(i.array(tree).and_then(|s| s.value(tree))),
            "i": sub(i.index(tree).and_then(|s| s.value(tree)))}),
        Path(p) => json!({
            "k": "field", "e": sub(p.previous_part(tree)),
            "name": p.field_name(tree).map(|n| n.text(tree).to_string()).unwrap_or_default()}),
        VarRef(v) => json!({
            "k": "var",
            "name": v.name(tree).map(|n| n.text(tree).to_string()).unwrap_or_default()}),
        IntLiteral(i) => json!({"k": "int", "text": i.text(tree)}),
        other => json!({"k": "other", "text": other.text(tree)}),
    }
}

pub fn parse_exprs(args: &[String]) {
    let input = get_arg(args, "--in").unwrap();
    let out = get_arg(args, "--out").unwrap();
    crate::pipeline::install_panic_hook();
    let mut w = BufWriter::new(fs::File::create(out).unwrap());
    for line in BufReader::new(fs::File::open(input).unwrap()).lines() {
        let line = line.unwrap();
        if line.is_empty() {
            continue;
        }
        let text: String = serde_json::from_str(&line).unwrap();
        let r = panic::catch_unwind(AssertUnwindSafe(|| {
            let toks = lexer::lex(&text);
            let parse = parser::parse_repl_line(&toks, &text);
            let tree = parse.syntax_tree();
            let root = ast::Root::cast(tree.root(), tree).unwrap();
            let stmts: Vec<ast::Stmt> = root.stmts(tree).collect();
            let e = match stmts.as_slice() {
                [ast::Stmt::Expr(es)] => es.expr(tree).map(|e| expr_json(e, tree)),
                _ => None,
            };
            (parse.errors().len(), stmts.len(), e)
        }));
        let rec = match r {
            Ok((nerr, nstmts, e)) => {
                json!({"text": text, "nerr": nerr, "nstmts": nstmts, "tree": e, "panic": ""})
            }
            Err(e) => {
                json!({"text": text, "nerr": 0, "nstmts": 0, "tree": null, "panic": panic_text(e)})
            }
        };
        writeln!(w, "{}", rec).unwrap();
    }
}
