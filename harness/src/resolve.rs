//! C05: name resolution as recorded in hir::Bodies after lowering one file.
//! For every expression that is the lowering of an identifier, report where it sits and what it
//! was resolved to.

use std::{
    fs,
    io::{BufRead, BufReader, BufWriter, Write},
    panic::{self, AssertUnwindSafe},
};

use ast::AstNode;
use hir::Expr;
use la_arena::{Idx, RawIdx};
use line_index::LineIndex;
use serde_json::{Value, json};

fn one(text: &str) -> Value {
    let li = LineIndex::new(text);
    let line_of = |o: text_size::TextSize| li.line_col(o).0.0 + 1;
    let r = panic::catch_unwind(AssertUnwindSafe(|| {
        let mut interner = interner::Interner::default();
        let mut uid_gen = uid_gen::UIDGenerator::default();
        let tokens = lexer::lex(text);
        let parse = parser::parse_source_file(&tokens, text);
        let tree = parse.syntax_tree();
        let root = ast::Root::cast(tree.root(), tree).unwrap();
        let (index, _idiags) = hir::index(root, tree, &mut interner);
        let (bodies, diags) = hir::lower(
            root,
            tree,
            std::path::Path::new("main.capy"),
            &index,
            &mut uid_gen,
            &mut interner,
            std::path::Path::new(""),
            true,
        );
        let mut refs = Vec::new();
        let mut i = 0u32;
        loop {
            let idx: Idx<Expr> = Idx::from_raw(RawIdx::from(i));
            let e = match panic::catch_unwind(AssertUnwindSafe(|| bodies[idx].clone())) {
                Ok(e) => e,
                Err(_) => break,
            };
            i += 1;
            let range = match panic::catch_unwind(AssertUnwindSafe(|| bodies.range_for_expr(idx))) {
                Ok(r) => r,
                Err(_) => continue,
            };
            let line = line_of(range.start());
            let rec = match e {
                Expr::Local(def) => {
                    json!({"line": line, "k": "local", "tline": line_of(bodies[def].range.start())})
                }
                Expr::SwitchArgument(arg) => json!({
                    "line": line, "k": "arm", "tline": line_of(bodies[arg].range.start()),
                    "dflt": bodies[arg].is_default}),
                Expr::LocalGlobal(n) => {
                    json!({"line": line, "k": "global", "name": interner.lookup(n.name.0)})
                }
                Expr::Param { range, .. } => {
                    json!({"line": line, "k": "param", "tline": line_of(range.start())})
                }
                Expr::ComptimeParam { range, .. } => {
                    json!({"line": line, "k": "cparam", "tline": line_of(range.start())})
                }
                Expr::InlineParam { range, .. } => {
                    json!({"line": line, "k": "iparam", "tline": line_of(range.start())})
                }
                Expr::PrimitiveTy(_) => json!({"line": line, "k": "prim"}),
                Expr::Nil => json!({"line": line, "k": "nil"}),
                _ => continue,
            };
            refs.push(rec);
        }
        let dv: Vec<Value> = diags
            .iter()
            .map(|d| {
                let k = format!("{:?}", d.kind);
                let k: String = k.chars().take_while(|c| c.is_ascii_alphanumeric()).collect();
                json!({"kind": k, "line": line_of(d.range.start())})
            })
            .collect();
        (refs, dv, parse.errors().len())
    }));
    match r {
        Ok((refs, diags, nsyn)) => json!({"refs": refs, "diags": diags, "nsyntax": nsyn, "panic": ""}),
        Err(_) => {
            let (m, l) = crate::pipeline::take_panic();
            json!({"refs": [], "diags": [], "nsyntax": 0, "panic": format!("{} @ {}", m, l)})
        }
    }
}

pub fn main(args: &[String]) {
    let input = crate::get_arg(args, "--in").unwrap();
    let out = crate::get_arg(args, "--out").unwrap();
    crate::pipeline::install_panic_hook();
    let mut w = BufWriter::new(fs::File::create(out).unwrap());
    for line in BufReader::new(fs::File::open(input).unwrap()).lines() {
        let line = line.unwrap();
        if line.is_empty() {
            continue;
        }
        let text: String = serde_json::from_str(&line).unwrap();
        writeln!(w, "{}", one(&text)).unwrap();
    }
}
