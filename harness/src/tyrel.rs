//! C12 / C13: evaluate the real type relations (hir::common::Ty) on every pair of a universe of
//! types given as JSON terms (spec/Ty.tla).  One record per ordered pair.

use std::{
    fs,
    io::{BufWriter, Write},
    panic::{self, AssertUnwindSafe},
};

use hir::common::{MemberTy, Name, ParamTy, Ty, set_enum_uid};
use interner::Interner;
use internment::Intern;
use serde_json::{Value, json};

pub fn build(t: &Value, interner: &mut Interner) -> Intern<Ty> {
    let k = t["k"].as_str().expect("k");
    let sub = |name: &str, interner: &mut Interner| build(&t[name], interner);
    let ty = match k {
        "int" => {
            let w = t["w"].as_u64().unwrap() as u8;
            if t["s"].as_bool().unwrap() {
                Ty::IInt(w)
            } else {
                Ty::UInt(w)
            }
        }
        "float" => Ty::Float(t["w"].as_u64().unwrap() as u8),
        "bool" => Ty::Bool,
        "str" => Ty::String,
        "char" => Ty::Char,
        "type" => Ty::Type,
        "any" => Ty::Any,
        "rawslice" => Ty::RawSlice,
        "void" => Ty::Void,
        "nil" => Ty::Nil,
        "rawptr" => Ty::RawPtr {
            mutable: t["m"].as_bool().unwrap(),
        },
        "arr" => Ty::ConcreteArray {
            size: t["n"].as_u64().unwrap(),
            sub_ty: sub("sub", interner),
        },
        "anonarr" => Ty::AnonArray {
            size: t["n"].as_u64().unwrap(),
            sub_ty: sub("sub", interner),
        },
        "slice" => Ty::Slice {
            sub_ty: sub("sub", interner),
        },
        "ptr" => Ty::Pointer {
            mutable: t["m"].as_bool().unwrap(),
            sub_ty: sub("sub", interner),
        },
        "distinct" => Ty::Distinct {
            uid: t["uid"].as_u64().unwrap() as u32,
            sub_ty: sub("sub", interner),
        },
        "opt" => Ty::Optional {
            sub_ty: sub("sub", interner),
        },
        "eu" => Ty::ErrorUnion {
            error_ty: sub("err", interner),
            payload_ty: sub("ok", interner),
        },
        "struct" | "anonstruct" => {
            let members: Vec<MemberTy> = t["ms"]
                .as_array()
                .unwrap()
                .iter()
                .map(|m| MemberTy {
                    name: Name(interner.intern(m[0].as_str().unwrap())),
                    ty: build(&m[1], interner),
                })
                .collect();
            if k == "struct" {
                Ty::ConcreteStruct {
                    uid: t["uid"].as_u64().unwrap() as u32,
                    members,
                }
            } else {
                Ty::AnonStruct { members }
            }
        }
        "variant" => Ty::EnumVariant {
            enum_uid: t["euid"].as_u64().unwrap() as u32,
            variant_name: Name(interner.intern(t["name"].as_str().unwrap())),
            uid: t["uid"].as_u64().unwrap() as u32,
            sub_ty: sub("sub", interner),
            discriminant: t["d"].as_u64().unwrap(),
        },
        "enum" => {
            let variants: Vec<Intern<Ty>> = t["vs"]
                .as_array()
                .unwrap()
                .iter()
                .map(|v| build(v, interner))
                .collect();
            let uid = t["uid"].as_u64().unwrap() as u32;
            let e: Intern<Ty> = Ty::Enum { uid, variants }.into();
            set_enum_uid(uid, e);
            return e;
        }
        "fnptr" => Ty::FunctionPointer {
            param_tys: t["ps"]
                .as_array()
                .unwrap()
                .iter()
                .map(|p| ParamTy {
                    ty: build(p, interner),
                    comptime: None,
                    varargs: false,
                    impossible_to_differentiate: false,
                })
                .collect(),
            return_ty: sub("ret", interner),
        },
        other => panic!("unknown type term kind {}", other),
    };
    ty.into()
}

fn tri(f: impl FnOnce() -> bool) -> u8 {
    match panic::catch_unwind(AssertUnwindSafe(f)) {
        Ok(true) => 1,
        Ok(false) => 0,
        Err(_) => 2,
    }
}

pub fn main(args: &[String]) {
    let input = crate::get_arg(args, "--universe").unwrap();
    let out = crate::get_arg(args, "--out").unwrap();
    let univ: Vec<Value> = serde_json::from_str(&fs::read_to_string(input).unwrap()).unwrap();
    let mut interner = Interner::default();
    // enums first so that ENUM_MAP knows every uid a variant refers to
    for t in &univ {
        if t["k"] == "enum" {
            build(t, &mut interner);
        }
    }
    let tys: Vec<Intern<Ty>> = univ.iter().map(|t| build(t, &mut interner)).collect();
    crate::pipeline::install_panic_hook();
    let mut w = BufWriter::new(fs::File::create(out).unwrap());
    for (i, a) in tys.iter().enumerate() {
        for (j, b) in tys.iter().enumerate() {
            let fit = tri(|| a.can_fit_into(b));
            let cast = tri(|| a.can_cast_to(b));
            let weak = tri(|| a.might_be_weak() && a.is_weak_replaceable_by(b));
            let feq = tri(|| a.is_functionally_equivalent_to(b, false));
            let max_ab = panic::catch_unwind(AssertUnwindSafe(|| a.max(b)));
            let max_ba = panic::catch_unwind(AssertUnwindSafe(|| b.max(a)));
            let (mut hasmax, mut fam, mut fbm, mut maxs) = (0u8, 0u8, 0u8, String::new());
            match &max_ab {
                Ok(Some(m)) => {
                    hasmax = 1;
                    fam = tri(|| a.can_fit_into(m));
                    fbm = tri(|| b.can_fit_into(m));
                    maxs = format!("{:?}", m);
                }
                Ok(None) => {}
                Err(_) => hasmax = 2,
            }
            let maxr = match &max_ba {
                Ok(Some(m)) => format!("{:?}", m),
                Ok(None) => String::new(),
                Err(_) => "<panic>".to_string(),
            };
            writeln!(
                w,
                "{}",
                json!({"i": i + 1, "j": j + 1, "a": univ[i], "b": univ[j], "fit": fit,
                       "cast": cast, "weak": weak, "feq": feq, "hasmax": hasmax, "max": maxs,
                       "maxrev": maxr, "fit_a_max": fam, "fit_b_max": fbm})
            )
            .unwrap();
        }
    }
}
