//! C17: the layouts the code generator itself uses (codegen::verif_api::layouts) for every type
//! of a universe given as JSON terms, together with the layouts of its direct components.

use std::{
    fs,
    io::{BufWriter, Write},
    panic::{self, AssertUnwindSafe},
};

use hir::common::Ty;
use interner::Interner;
use internment::Intern;
use serde_json::{Value, json};

fn subterms(t: &Value) -> Vec<Value> {
    match t["k"].as_str().unwrap() {
        "arr" | "anonarr" | "distinct" | "variant" | "opt" | "slice" | "ptr" => {
            if matches!(t["k"].as_str().unwrap(), "slice" | "ptr") {
                vec![]
            } else {
                vec![t["sub"].clone()]
            }
        }
        "eu" => vec![t["err"].clone(), t["ok"].clone()],
        "struct" | "anonstruct" => t["ms"]
            .as_array()
            .unwrap()
            .iter()
            .map(|m| m[1].clone())
            .collect(),
        "enum" => t["vs"].as_array().unwrap().clone(),
        _ => vec![],
    }
}

fn lay_json(l: &codegen::verif_api::TyLayout) -> Value {
    json!({"size": l.size, "align": l.align, "stride": l.stride,
           "offsets": l.offsets.clone().unwrap_or_default(),
           "tag": l.discriminant_offset.map(|d| d as u64).unwrap_or(1000000u64)})
}

pub fn main(args: &[String]) {
    let input = crate::get_arg(args, "--universe").unwrap();
    let out = crate::get_arg(args, "--out").unwrap();
    let ptr: u32 = crate::get_arg(args, "--ptr").unwrap().parse().unwrap();
    let univ: Vec<Value> = serde_json::from_str(&fs::read_to_string(input).unwrap()).unwrap();
    let mut interner = Interner::default();
    crate::pipeline::install_panic_hook();
    for t in &univ {
        if t["k"] == "enum" {
            crate::tyrel::build(t, &mut interner);
        }
    }
    let mut w = BufWriter::new(fs::File::create(out).unwrap());
    for t in &univ {
        let subs = subterms(t);
        let mut tys: Vec<Intern<Ty>> = vec![crate::tyrel::build(t, &mut interner)];
        for s in &subs {
            tys.push(crate::tyrel::build(s, &mut interner));
        }
        let r = panic::catch_unwind(AssertUnwindSafe(|| codegen::verif_api::layouts(&tys, ptr)));
        let rec = match r {
            Ok(ls) => {
                let mut rec = lay_json(&ls[0]);
                rec["t"] = t.clone();
                rec["subs"] = Value::Array(ls[1..].iter().map(lay_json).collect());
                rec["panic"] = json!("");
                rec
            }
            Err(_) => {
                let (m, l) = crate::pipeline::take_panic();
                json!({"t": t, "size": 0, "align": 0, "stride": 0, "offsets": [], "tag": 0,
                       "subs": [], "panic": format!("{} @ {}", m, l)})
            }
        };
        writeln!(w, "{}", rec).unwrap();
    }
}
