//! C26: replay TLC-generated histories (TopoImpl.tla, `hist`) into the real topo::TopoSort and
//! compare after every call.  Set-level disagreements contradict (P) => violation; order-level
//! disagreements only contradict (M) => drift.

use std::{
    collections::BTreeSet,
    fs,
    io::{BufRead, BufReader, Write},
    panic::{self, AssertUnwindSafe},
};

use serde::Deserialize;
use serde_json::json;
use topo::TopoSort;

#[derive(Deserialize, Debug, Clone)]
struct Op {
    op: String,
    #[serde(default)]
    items: Vec<u8>,
    #[serde(default)]
    order: Vec<u8>,
    #[serde(default)]
    cyc: bool,
    #[serde(default)]
    i: u8,
    #[serde(default)]
    d: Vec<u8>,
    #[serde(default)]
    len: usize,
}

struct Outcome {
    violation: Option<String>,
    drift: Option<String>,
    ops: usize,
}

fn offered_of(t: &TopoSort<u8>) -> (Vec<u8>, bool) {
    match t.peek_all() {
        Ok(l) => (l.into_iter().copied().collect(), false),
        Err(_) => {
            let mut c: Vec<u8> = t
                .peek_all_cyclic()
                .map(|v| v.into_iter().copied().collect())
                .unwrap_or_default();
            c.sort();
            (c, true)
        }
    }
}

fn replay(hist: &[Op]) -> Outcome {
    let mut t: TopoSort<u8> = TopoSort::new();
    let mut out = Outcome {
        violation: None,
        drift: None,
        ops: 0,
    };
    // model of (P) kept by the harness only to phrase messages; the expected values come from TLC
    let mut pend: BTreeSet<u8> = BTreeSet::new();
    for (step, op) in hist.iter().enumerate() {
        out.ops += 1;
        match op.op.as_str() {
            "seed" => {
                t.extend(op.items.iter().copied());
                pend.extend(op.items.iter().copied());
            }
            "round" => {
                let (got, cyc) = offered_of(&t);
                let got_set: BTreeSet<u8> = got.iter().copied().collect();
                let exp_set: BTreeSet<u8> = op.order.iter().copied().collect();
                if got_set != exp_set {
                    out.violation = Some(format!(
                        "step {}: round offered {:?} but the ready set is {:?}",
                        step, got, op.order
                    ));
                    return out;
                }
                if cyc != op.cyc || t.in_cycle() != op.cyc {
                    out.violation = Some(format!(
                        "step {}: cycle reported={} in_cycle={} expected={}",
                        step,
                        cyc,
                        t.in_cycle(),
                        op.cyc
                    ));
                    return out;
                }
                if got != op.order && out.drift.is_none() {
                    out.drift = Some(format!(
                        "step {}: offer order {:?} differs from model {:?}",
                        step, got, op.order
                    ));
                }
            }
            "done" => {
                if !t.remove(&op.i) {
                    out.violation =
                        Some(format!("step {}: remove({}) reported not present", step, op.i));
                    return out;
                }
                pend.remove(&op.i);
                if t.len() != op.len {
                    out.violation = Some(format!(
                        "step {}: {} items pending after completing {}, expected {}",
                        step,
                        t.len(),
                        op.i,
                        op.len
                    ));
                    return out;
                }
            }
            "deps" => {
                t.insert_deps(op.i, op.d.iter().copied());
                pend.extend(op.d.iter().copied());
                if t.len() != op.len {
                    out.violation = Some(format!(
                        "step {}: {} items pending after registering {:?} for {}, expected {}",
                        step,
                        t.len(),
                        op.d,
                        op.i,
                        op.len
                    ));
                    return out;
                }
            }
            _ => {}
        }
    }
    // clause 4: completing everything that is offered drains the schedule within |pend| rounds.
    // Only meaningful between rounds (all offered items processed): the last op is not "round".
    if hist.last().map(|o| o.op != "round").unwrap_or(false) {
        // find whether we are mid-round: count items processed since last round op
        let mut idx = hist.len();
        let mut processed = 0usize;
        let mut offered = 0usize;
        while idx > 0 {
            idx -= 1;
            if hist[idx].op == "round" {
                offered = hist[idx].order.len();
                break;
            }
            if hist[idx].op == "seed" {
                offered = 0;
                processed = 0;
                break;
            }
            processed += 1;
        }
        if processed == offered {
            let mut c = t.clone();
            let bound = c.len();
            let mut rounds = 0;
            while !c.is_empty() && rounds <= bound {
                let (off, _) = offered_of(&c);
                if off.is_empty() {
                    break;
                }
                for i in off {
                    c.remove(&i);
                }
                rounds += 1;
            }
            if !c.is_empty() || rounds > bound {
                out.violation = Some(format!(
                    "drain: {} items still pending after {} all-complete rounds (bound {})",
                    c.len(),
                    rounds,
                    bound
                ));
            }
        }
    }
    out
}

pub fn main(args: &[String]) {
    let input = crate::get_arg(args, "--in").expect("--in");
    let outp = crate::get_arg(args, "--out").expect("--out");
    let f = BufReader::new(fs::File::open(&input).expect("input"));
    panic::set_hook(Box::new(|_| {}));
    let mut n = 0usize;
    let mut ops = 0usize;
    let mut violations = Vec::new();
    let mut drifts = Vec::new();
    let mut samples = Vec::new();
    let mut maxlen = 0usize;
    for line in f.lines() {
        let line = line.unwrap();
        let inner: String = if line.starts_with("\"REPLAY ") {
            match serde_json::from_str::<String>(&line) {
                Ok(s) => s[7..].to_string(),
                Err(_) => continue,
            }
        } else if line.starts_with("REPLAY ") {
            line[7..].to_string()
        } else {
            continue;
        };
        let hist: Vec<Op> = match serde_json::from_str(&inner) {
            Ok(h) => h,
            Err(e) => {
                eprintln!("bad replay line: {}", e);
                std::process::exit(2);
            }
        };
        n += 1;
        maxlen = maxlen.max(hist.len());
        let r = panic::catch_unwind(AssertUnwindSafe(|| replay(&hist)));
        match r {
            Ok(o) => {
                ops += o.ops;
                if let Some(v) = o.violation {
                    if violations.len() < 50 {
                        violations.push(json!({"hist": inner, "what": v}));
                    }
                }
                if let Some(d) = o.drift {
                    if drifts.len() < 5 {
                        drifts.push(json!({"hist": inner, "what": d}));
                    }
                }
            }
            Err(_) => {
                if violations.len() < 50 {
                    violations.push(json!({"hist": inner, "what": "panic inside TopoSort"}));
                }
            }
        }
        if n % 20011 == 1 && samples.len() < 6 {
            samples.push(inner.clone());
        }
    }
    let mut out = fs::File::create(&outp).unwrap();
    writeln!(
        out,
        "{}",
        json!({"histories": n, "ops": ops, "max_len": maxlen, "violations": violations,
               "drift": drifts, "samples": samples})
    )
    .unwrap();
}
