//! Staged compilation of one job (one set of source files) through the public API of the
//! crates under /repo, mirroring crates/capy/src/main.rs (real file system, import work-list).
//! Every stage is wrapped in catch_unwind; panics are *data* (recorded), never tool errors.

use std::{
    cell::RefCell,
    collections::BTreeMap,
    fs,
    io::Write,
    panic::{self, AssertUnwindSafe},
    path::{Path, PathBuf},
    time::Instant,
};

use ast::AstNode;
use hir::common::{ComptimeResultMap, FileName, Fqn, Name};
use hir_ty::InferenceResult;
use interner::Interner;
use la_arena::Arena;
use line_index::LineIndex;
use path_clean::PathClean;
use rustc_hash::FxHashMap;
use serde::{Deserialize, Serialize};
use sha2::{Digest, Sha256};
use uid_gen::UIDGenerator;

#[derive(Deserialize, Serialize, Clone, Debug)]
pub struct Job {
    pub id: String,
    /// relative path -> contents; written under the job directory by the parent
    pub files: BTreeMap<String, String>,
    #[serde(default = "default_main")]
    pub main: String,
    #[serde(default = "default_entry")]
    pub entry: String,
    /// module directory ("" = none, "repo" = /repo so that `core` resolves, else relative to job dir)
    #[serde(default)]
    pub mod_dir: String,
    /// compile to an object and link+run it when no error was reported
    #[serde(default)]
    pub run: bool,
    /// link the object (without running it) when no error was reported
    #[serde(default)]
    pub link: bool,
    #[serde(default)]
    pub args: Vec<String>,
    #[serde(default = "default_timeout")]
    pub timeout_ms: u64,
    #[serde(default = "default_true")]
    pub track_unsafe: bool,
    /// stop after this stage: "parse" | "lower" | "infer" | "" (all)
    #[serde(default)]
    pub stop_after: String,
    /// explicit order in which non-main files are pre-registered (C21); empty = work-list order
    #[serde(default)]
    pub file_order: Vec<String>,
    #[serde(default)]
    pub keep: bool,
    /// C21: another program (relative path -> contents) compiled to an object in the SAME process
    /// before this job, to exercise the process-global tables; its outcome is discarded
    #[serde(default)]
    pub warm: BTreeMap<String, String>,
    /// C19: a C translation unit compiled by the host gcc and linked with the object
    #[serde(default)]
    pub c_source: String,
    /// C26: record the history of the inference scheduler (hir_ty::verif_trace)
    #[serde(default)]
    pub sched: bool,
}
fn default_main() -> String {
    "main.capy".into()
}
fn default_entry() -> String {
    "main".into()
}
fn default_timeout() -> u64 {
    20000
}
fn default_true() -> bool {
    true
}

#[derive(Serialize, Deserialize, Default, Clone, Debug)]
pub struct Diag {
    pub phase: String,
    pub kind: String,
    pub sev: String,
    pub file: String,
    pub start: u32,
    pub end: u32,
    /// `line:col` parsed out of the rendered header (1-based), or "" if rendering failed
    pub header: String,
    pub render_ok: bool,
    pub has_expr: bool,
    pub text: String,
}

#[derive(Serialize, Deserialize, Default, Clone, Debug)]
pub struct PanicInfo {
    pub stage: String,
    pub msg: String,
    pub loc: String,
}

#[derive(Serialize, Deserialize, Default, Clone, Debug)]
pub struct RunInfo {
    pub stdout: String,
    pub stdout_hex: String,
    pub status: Option<i32>,
    pub signal: Option<i32>,
    pub timeout: bool,
}

#[derive(Serialize, Deserialize, Default, Clone, Debug)]
pub struct JobResult {
    pub id: String,
    pub stages: Vec<String>,
    pub files_parsed: Vec<String>,
    pub parse_counts: BTreeMap<String, u32>,
    pub diags: Vec<Diag>,
    pub has_errors: bool,
    pub any_unsafe: bool,
    pub entry_count: u32,
    pub obj_sha: String,
    pub obj_len: usize,
    pub cranelift_err: String,
    pub link: String,
    pub run: Option<RunInfo>,
    pub panic: Option<PanicInfo>,
    /// set by the parent: "", "timeout", "signal:<n>", "exit:<n>"
    pub crash: String,
    pub compiler_stdout_markers: String,
    /// set by the parent when the child exited without a result: the end of what it printed
    #[serde(default)]
    pub compiler_stdout_tail: String,
    /// C26: scheduler events of the inference loop, one per line (tab separated)
    #[serde(default)]
    pub sched: Vec<String>,
    pub wall_ms: u64,
}

thread_local! {
    static LAST_PANIC: RefCell<Option<(String, String)>> = const { RefCell::new(None) };
}

pub fn install_panic_hook() {
    panic::set_hook(Box::new(|info| {
        let msg = if let Some(s) = info.payload().downcast_ref::<&str>() {
            s.to_string()
        } else if let Some(s) = info.payload().downcast_ref::<String>() {
            s.clone()
        } else {
            "<non-string panic>".to_string()
        };
        let loc = info
            .location()
            .map(|l| format!("{}:{}", l.file(), l.line()))
            .unwrap_or_default();
        // the innermost function of the code under test on the stack: a call-site identity that
        // survives line shifts
        let bt = std::backtrace::Backtrace::force_capture().to_string();
        let mut func = String::new();
        const CRATES: [&str; 15] = [
            "hir_ty::", "hir::", "codegen::", "parser::", "lexer::", "ast::", "diagnostics::",
            "topo::", "token::", "line_index::", "syntax::", "interner::", "uid_gen::",
            "cranelift", "eventree::",
        ];
        for line in bt.lines() {
            let t = line.trim();
            // frame lines look like "12: hir_ty::globals::GlobalInferenceCtx::infer_expr"
            if let Some((_, name)) = t.split_once(": ") {
                let name = name.trim_start_matches('<');
                if CRATES.iter().any(|c| name.starts_with(c)) && !name.contains("capy_verif") {
                    func = name.split("::h").next().unwrap_or(name).to_string();
                    // drop closure / generic noise
                    func = func.replace("::{{closure}}", "");
                    break;
                }
            }
        }
        let loc = if func.is_empty() { loc } else { format!("{} in {}", loc, func) };
        LAST_PANIC.with(|p| *p.borrow_mut() = Some((msg, loc)));
    }));
}

pub fn take_panic() -> (String, String) {
    LAST_PANIC.with(|p| p.borrow_mut().take()).unwrap_or_default()
}

fn kind_name<T: std::fmt::Debug>(k: &T) -> String {
    let s = format!("{:?}", k);
    s.chars()
        .take_while(|c| c.is_ascii_alphanumeric() || *c == '_')
        .collect()
}

struct Src {
    path: PathBuf,
    contents: String,
    module: FileName,
    diags: Vec<(String, diagnostics::Diagnostic, String)>,
}

fn stage<T>(
    res: &mut JobResult,
    name: &str,
    progress: &mut fs::File,
    f: impl FnOnce() -> T,
) -> Option<T> {
    let _ = writeln!(progress, "{}", name);
    let _ = progress.flush();
    match panic::catch_unwind(AssertUnwindSafe(f)) {
        Ok(v) => {
            res.stages.push(name.to_string());
            Some(v)
        }
        Err(_) => {
            let (msg, loc) = LAST_PANIC.with(|p| p.borrow_mut().take()).unwrap_or_default();
            res.panic = Some(PanicInfo {
                stage: name.to_string(),
                msg,
                loc,
            });
            None
        }
    }
}

fn render(
    res: &mut JobResult,
    phase: &str,
    kind: String,
    d: &diagnostics::Diagnostic,
    file: &str,
    contents: &str,
    mod_dir: &Path,
    interner: &Interner,
    has_expr: bool,
) {
    let li = LineIndex::new(contents);
    let range = d.range();
    let sev = match d.severity() {
        diagnostics::Severity::Error => "error",
        diagnostics::Severity::Warning => "warning",
        diagnostics::Severity::Help => "help",
    };
    let mut header = String::new();
    let mut text = String::new();
    let mut ok = true;
    for colors in [false, true] {
        match panic::catch_unwind(AssertUnwindSafe(|| {
            d.display(file, contents, mod_dir, interner, &li, colors)
        })) {
            Ok(lines) => {
                if !colors {
                    for l in &lines {
                        if let Some(pos) = l.find("--> at ") {
                            let rest = &l[pos + 7..];
                            // file:line:col  (file may contain ':')
                            let parts: Vec<&str> = rest.rsplitn(3, ':').collect();
                            if parts.len() == 3 && header.is_empty() {
                                header = format!("{}:{}", parts[1], parts[0]);
                            }
                        }
                    }
                    text = lines.join("\n");
                }
            }
            Err(_) => {
                ok = false;
                let (msg, loc) = LAST_PANIC.with(|p| p.borrow_mut().take()).unwrap_or_default();
                text = format!("RENDER PANIC {} @ {}", msg, loc);
            }
        }
    }
    res.diags.push(Diag {
        phase: phase.to_string(),
        kind,
        sev: sev.to_string(),
        file: file.to_string(),
        start: range.start().into(),
        end: range.end().into(),
        header,
        render_ok: ok,
        has_expr,
        text,
    });
}

/// Runs inside the child process. cwd is already the job directory.
pub fn run_job(job: &Job, progress_path: &Path) -> JobResult {
    let start = Instant::now();
    let mut res = JobResult {
        id: job.id.clone(),
        ..Default::default()
    };
    let mut progress = fs::File::create(progress_path).expect("progress file");
    let cwd = std::env::current_dir().unwrap();

    let mod_dir: PathBuf = match job.mod_dir.as_str() {
        "" => cwd.join("__no_mod_dir__"),
        "repo" => PathBuf::from("/repo"),
        other => cwd.join(other).clean(),
    };
    let target = target_lexicon::Triple::host();
    let ptr_bits = target.pointer_width().unwrap().bits();

    let mut interner = Interner::default();
    let mut world_index = hir::WorldIndex::default();
    let mut world_bodies = hir::WorldBodies::default();
    let mut uid_gen = UIDGenerator::default();
    let mut sources: Vec<Src> = Vec::new();
    let mut seen: FxHashMap<FileName, usize> = FxHashMap::default();

    let main_path = cwd.join(&job.main).clean();

    // front end per file: the CLI's work-list (crates/capy/src/main.rs)
    let mut worklist: Vec<PathBuf> = vec![main_path.clone()];
    for f in &job.file_order {
        worklist.push(cwd.join(f).clean());
    }
    let ok = stage(&mut res, "frontend", &mut progress, || {
        let mut files_parsed = Vec::new();
        let mut parse_counts: BTreeMap<String, u32> = BTreeMap::new();
        while !worklist.is_empty() {
            let old = std::mem::take(&mut worklist);
            for path in old {
                let module = FileName(interner.intern(&path.to_string_lossy()));
                if seen.contains_key(&module) {
                    continue;
                }
                let contents = match fs::read_to_string(&path) {
                    Ok(c) => c,
                    Err(why) => {
                        files_parsed.push(format!("READ-ERROR {} {}", path.display(), why));
                        continue;
                    }
                };
                files_parsed.push(path.to_string_lossy().to_string());
                *parse_counts
                    .entry(path.to_string_lossy().to_string())
                    .or_insert(0) += 1;
                let tokens = lexer::lex(&contents);
                let parse = parser::parse_source_file(&tokens, &contents);
                let tree = parse.syntax_tree();
                let root = ast::Root::cast(tree.root(), tree).unwrap();
                let validation = ast::validation::validate(root, tree);
                let (index, indexing) = hir::index(root, tree, &mut interner);
                let mut diags: Vec<(String, diagnostics::Diagnostic, String)> = Vec::new();
                for e in parse.errors() {
                    diags.push((
                        "syntax".into(),
                        diagnostics::Diagnostic::from_syntax(*e),
                        kind_name(&e.kind),
                    ));
                }
                for d in validation {
                    let k = kind_name(&d.kind);
                    diags.push((
                        "validation".into(),
                        diagnostics::Diagnostic::from_validation(d),
                        k,
                    ));
                }
                for d in indexing {
                    let k = kind_name(&d.kind);
                    diags.push((
                        "indexing".into(),
                        diagnostics::Diagnostic::from_indexing(d),
                        k,
                    ));
                }
                let (bodies, lowering) = hir::lower(
                    root,
                    tree,
                    path.as_path(),
                    &index,
                    &mut uid_gen,
                    &mut interner,
                    &mod_dir,
                    false,
                );
                for d in lowering {
                    let k = kind_name(&d.kind);
                    diags.push((
                        "lowering".into(),
                        diagnostics::Diagnostic::from_lowering(d),
                        k,
                    ));
                }
                world_index.add_file(module, index);
                let imports = bodies.imports().clone();
                world_bodies.add_file(module, bodies);
                let mut imps: Vec<PathBuf> = imports
                    .iter()
                    .map(|f| PathBuf::from(interner.lookup(f.0)))
                    .collect();
                imps.sort();
                worklist.extend(imps);
                seen.insert(module, sources.len());
                sources.push(Src {
                    path,
                    contents,
                    module,
                    diags,
                });
            }
        }
        (files_parsed, parse_counts)
    });
    let Some((files_parsed, parse_counts)) = ok else {
        res.wall_ms = start.elapsed().as_millis() as u64;
        return res;
    };
    res.files_parsed = files_parsed;
    res.parse_counts = parse_counts;

    // render the per-file diagnostics
    let mut front_errors = false;
    {
        let srcs = std::mem::take(&mut sources);
        for s in &srcs {
            for (phase, d, kind) in &s.diags {
                if d.severity() == diagnostics::Severity::Error {
                    front_errors = true;
                }
                render(
                    &mut res,
                    phase,
                    kind.clone(),
                    d,
                    &s.path.to_string_lossy(),
                    &s.contents,
                    &mod_dir,
                    &interner,
                    false,
                );
            }
        }
        sources = srcs;
    }
    if job.stop_after == "lower" || job.stop_after == "parse" {
        res.has_errors = front_errors;
        res.wall_ms = start.elapsed().as_millis() as u64;
        return res;
    }

    let entry_name = Name(interner.intern(&job.entry));
    let main_files: Vec<FileName> = sources
        .iter()
        .filter(|s| world_bodies[s.module].global_exists(entry_name))
        .map(|s| s.module)
        .collect();
    res.entry_count = main_files.len() as u32;
    let entry_point = main_files.first().map(|file| Fqn {
        file: *file,
        name: entry_name,
    });

    let mut comptime_results = ComptimeResultMap::default();
    let mut generic_values = Arena::new();

    let inferred = stage(&mut res, "infer", &mut progress, || {
        hir_ty::InferenceCtx::new(
            &world_index,
            &world_bodies,
            &interner,
            &mut generic_values,
            |comptime, tys| {
                if let Some(result) = comptime_results.get(comptime) {
                    return result.clone();
                }
                codegen::eval_comptime_blocks(
                    codegen::Verbosity::None,
                    &mut std::iter::once(comptime),
                    &mut comptime_results,
                    &mod_dir,
                    &interner,
                    &world_bodies,
                    tys,
                    ptr_bits,
                );
                comptime_results[comptime].clone()
            },
        )
        .finish(entry_point, job.track_unsafe)
    });
    {
        // the scheduler history is recorded whether or not inference panicked
        let events = hir_ty::verif_trace::take();
        if job.sched {
            res.sched = events;
        }
    }
    let Some(InferenceResult {
        tys,
        diagnostics: ty_diags,
        any_were_unsafe_to_compile,
    }) = inferred
    else {
        res.wall_ms = start.elapsed().as_millis() as u64;
        return res;
    };
    res.any_unsafe = any_were_unsafe_to_compile;
    let mut ty_errors = false;
    for d in ty_diags {
        if d.is_error() {
            ty_errors = true;
        }
        let Some(&si) = seen.get(&d.file) else {
            continue;
        };
        let kind = kind_name(&d.kind);
        let has_expr = d.expr.is_some();
        let diag = diagnostics::Diagnostic::from_ty(d);
        let (p, c) = (
            sources[si].path.to_string_lossy().to_string(),
            sources[si].contents.clone(),
        );
        render(
            &mut res, "ty", kind, &diag, &p, &c, &mod_dir, &interner, has_expr,
        );
    }
    res.has_errors = front_errors || ty_errors;
    if res.has_errors || job.stop_after == "infer" {
        res.wall_ms = start.elapsed().as_millis() as u64;
        return res;
    }

    let ok = stage(&mut res, "comptime", &mut progress, || {
        codegen::eval_comptime_blocks(
            codegen::Verbosity::None,
            &mut world_bodies.find_comptimes(),
            &mut comptime_results,
            &mod_dir,
            &interner,
            &world_bodies,
            &tys,
            ptr_bits,
        );
    });
    if ok.is_none() || res.entry_count != 1 {
        res.wall_ms = start.elapsed().as_millis() as u64;
        return res;
    }

    let bytes = stage(&mut res, "codegen", &mut progress, || {
        codegen::compile_obj(
            codegen::Verbosity::None,
            entry_point.unwrap().make_concrete(None),
            &mod_dir,
            &interner,
            &world_bodies,
            &tys,
            &comptime_results,
            target.clone(),
        )
    });
    let Some(bytes) = bytes else {
        res.wall_ms = start.elapsed().as_millis() as u64;
        return res;
    };
    let bytes = match bytes {
        Ok(b) => b,
        Err(why) => {
            res.cranelift_err = format!("{}", why);
            res.wall_ms = start.elapsed().as_millis() as u64;
            return res;
        }
    };
    res.obj_len = bytes.len();
    res.obj_sha = format!("{:x}", Sha256::digest(&bytes));

    if job.run || job.link {
        let out_dir = cwd.join("out");
        let _ = fs::create_dir(&out_dir);
        let obj = out_dir.join("prog.o");
        fs::write(&obj, &bytes).expect("write object");
        let linked = stage(&mut res, "link", &mut progress, || {
            if job.c_source.is_empty() {
                return codegen::link_to_exec(&obj, &target, &[]);
            }
            // the host C compiler builds the C side and links both objects
            let c_file = out_dir.join("c_side.c");
            fs::write(&c_file, &job.c_source).expect("write c source");
            let c_obj = out_dir.join("c_side.o");
            let cc = std::process::Command::new("gcc")
                .args(["-c", "-O1", "-w", "-o"])
                .arg(&c_obj)
                .arg(&c_file)
                .output()
                .expect("gcc");
            if !cc.status.success() {
                return Err(codegen::LinkingErr::CmdFailed { cmd_name: "gcc -c", output: cc });
            }
            let exe = out_dir.join("prog");
            let ld = std::process::Command::new("gcc")
                .arg("-o")
                .arg(&exe)
                .arg(&obj)
                .arg(&c_obj)
                .output()
                .expect("gcc");
            if !ld.status.success() {
                return Err(codegen::LinkingErr::CmdFailed { cmd_name: "gcc", output: ld });
            }
            Ok(exe)
        });
        match linked {
            Some(Ok(exe)) => {
                res.link = "ok".into();
                if job.run {
                    res.run = Some(run_exe(&exe, &job.args, job.timeout_ms));
                }
            }
            Some(Err(e)) => {
                res.link = format!("{:?}", e);
            }
            None => {}
        }
    }
    res.wall_ms = start.elapsed().as_millis() as u64;
    res
}

pub fn run_exe(exe: &Path, args: &[String], timeout_ms: u64) -> RunInfo {
    use std::process::{Command, Stdio};
    let mut info = RunInfo::default();
    let child = Command::new("timeout")
        .arg("-s")
        .arg("KILL")
        .arg(format!("{}", (timeout_ms as f64 / 1000.0).max(1.0)))
        .arg(exe)
        .args(args)
        .stdin(Stdio::null())
        .stdout(Stdio::piped())
        .stderr(Stdio::null())
        .output();
    match child {
        Ok(out) => {
            let mut bytes = out.stdout;
            if bytes.len() > 1 << 20 {
                bytes.truncate(1 << 20);
            }
            info.stdout = String::from_utf8_lossy(&bytes).to_string();
            if std::str::from_utf8(&bytes).is_err() {
                info.stdout_hex = bytes.iter().map(|b| format!("{:02x}", b)).collect();
            }
            info.status = out.status.code();
            #[cfg(unix)]
            {
                use std::os::unix::process::ExitStatusExt;
                info.signal = out.status.signal();
            }
            if info.signal == Some(9) || info.status == Some(137) {
                info.timeout = true;
            }
        }
        Err(e) => {
            info.stdout = format!("SPAWN-ERROR {}", e);
        }
    }
    info
}
