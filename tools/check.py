#!/usr/bin/env python3
"""check.py <ID> [--tier quick|thorough] [--replay path]

Decides one property of /verif/properties.jsonl on /repo's current working tree.
"""
import argparse
import importlib
import os
import sys
import traceback

sys.path.insert(0, os.path.dirname(os.path.abspath(__file__)))
import common  # noqa: E402


def main():
    ap = argparse.ArgumentParser()
    ap.add_argument("pid")
    ap.add_argument("--tier", default=os.environ.get("VERIF_TIER", "quick"))
    ap.add_argument("--replay", default=None)
    ap.add_argument("--no-build", action="store_true")
    a = ap.parse_args()
    pid = a.pid.upper()
    tier = a.tier if a.tier in ("quick", "thorough") else "quick"
    try:
        mod = importlib.import_module("props." + pid.lower())
    except ImportError as e:
        print("no check for", pid, e)
        return 2
    try:
        if not a.no_build:
            common.build_harness()
        if a.replay:
            return mod.replay(a.replay)
        chk = common.Check(pid, tier, getattr(mod, "LEVEL", "model_checking"))
        mod.run(chk)
        return chk.finish()
    except common.ToolError as e:
        print("TOOL-ERROR:", e)
        return 2
    except Exception:
        traceback.print_exc()
        return 2


if __name__ == "__main__":
    sys.exit(main())
