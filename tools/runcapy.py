#!/usr/bin/env python3
"""runcapy.py file.capy [--core] : compile+run one file through the harness (developer aid)."""
import json, sys, os
sys.path.insert(0, os.path.dirname(os.path.abspath(__file__)))
import common
src = open(sys.argv[1]).read()
job = {"id": "x", "files": {"main.capy": src}, "run": True, "timeout_ms": 20000,
       "mod_dir": "repo" if "--core" in sys.argv else ""}
wd = common.workdir("x", clean=False)
r = common.run_batch([job], wd, "x", par=1)[0]
for d in r["diags"]:
    print(d["sev"], d["kind"], d["header"], d["text"][:300])
print("stages", r["stages"], "panic", r["panic"], "crash", r["crash"], "cl", r["cranelift_err"], "link", r["link"])
print("run", json.dumps(r["run"]))
