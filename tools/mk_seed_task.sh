#!/bin/sh
# mk_seed_task.sh ID [suffix]: scratch worktree of /repo HEAD + prompt file for a seeding sub-agent
ID=$1; SUF=${2:-}
WT=/tmp/seed_${ID}${SUF}
git -C /repo worktree add -q $WT HEAD || exit 2
python3 - <<PY
import json
for l in open('/verif/properties.jsonl'):
    p=json.loads(l)
    if p['id']=='$ID':
        open('/tmp/prop_${ID}.json','w').write(json.dumps(p,indent=1))
PY
sed "s#WORKTREE#$WT#g; s#PROPFILE#/tmp/prop_$ID.json#g" /verif/tools/seed_prompt.txt > /tmp/seed_prompt_${ID}${SUF}.txt
echo "Read the file /tmp/seed_prompt_${ID}${SUF}.txt and follow its instructions exactly. It describes a task on a scratch git worktree at $WT with the property description in /tmp/prop_$ID.json. Do not touch /repo or /verif."
