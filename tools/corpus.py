"""Input corpora and mutators shared by C06 C07 C21 C22 C23 C25."""
import glob
import os
import random
import re
import unicodedata

REPO = "/repo"

TOKEN_POOL = ["a", "b", "x", "1", "0", "1.5", "0x1F", "0b1", "true", "false", "'a'", '"s"', "+",
              "-", "*", "/", "%", "<", "<<", "<=", ">", ">>", ">=", "!", "!=", "&", "&&", "|",
              "||", "=", "==", "~", ",", ".", "...", "?", "->", "=>", "^", "`", "(", ")", "[",
              "]", "{", "}", ":", ";", "#", "as", "if", "else", "while", "loop", "switch", "in",
              "distinct", "mut", "extern", "struct", "enum", "comptime", "return", "break",
              "continue", "defer", "try", "catch", "::", ":=", ".(", ".[", ".{", "^mut", "_",
              "i32", "u8", "str", "nil", "void", "type", "any", "//c\n", "\n", "é", "\xa0", "\\",
              "#import", "#unwrap", "#is_variant", "main", "core"]


def source_files():
    out = []
    for pat in ["examples/**/*.capy", "core/**/*.capy"]:
        for p in sorted(glob.glob(os.path.join(REPO, pat), recursive=True)):
            try:
                out.append((os.path.relpath(p, REPO), open(p, encoding="utf-8").read()))
            except Exception:
                pass
    return out


def parser_tests():
    out = []
    for p in sorted(glob.glob(os.path.join(REPO, "crates/parser/src/tests/**/*.test"),
                              recursive=True)):
        try:
            txt = open(p, encoding="utf-8").read()
        except Exception:
            continue
        head = txt.split("\n===\n")[0]
        out.append((os.path.relpath(p, REPO), head))
    return out


RAW = re.compile(r'r#"(.*?)"#', re.S)


def embedded_sources():
    out = []
    for f in ["crates/codegen/src/tests.rs", "crates/hir_ty/src/tests.rs",
              "crates/hir/src/body.rs", "crates/hir_ty/src/globals.rs", "crates/hir/src/index.rs"]:
        p = os.path.join(REPO, f)
        if not os.path.exists(p):
            continue
        txt = open(p, encoding="utf-8", errors="replace").read()
        for k, m in enumerate(RAW.finditer(txt)):
            s = m.group(1)
            if 0 < len(s) < 20000:
                out.append(("%s#%d" % (f, k), s))
    for p in sorted(glob.glob(os.path.join(REPO, "crates/hir_ty/src/tests/*.rs"))):
        txt = open(p, encoding="utf-8", errors="replace").read()
        for k, m in enumerate(RAW.finditer(txt)):
            s = m.group(1)
            if 0 < len(s) < 20000:
                out.append(("%s#%d" % (os.path.relpath(p, REPO), k), s))
    return out


def all_texts():
    return source_files() + parser_tests() + embedded_sources()


SPLIT = re.compile(r"\s+|[A-Za-z_][A-Za-z0-9_]*|\d[\d_]*|\"[^\"\n]*\"?|'[^'\n]*'?|//[^\n]*|.", re.S)


def toks(text):
    return SPLIT.findall(text)


def mutate_bytes(rng, text, n=1):
    b = list(text)
    for _ in range(n):
        if not b:
            b = [rng.choice(TOKEN_POOL)]
            continue
        k = rng.randrange(len(b))
        op = rng.randrange(5)
        if op == 0:
            del b[k]
        elif op == 1:
            b.insert(k, b[k])
        elif op == 2:
            b[k] = rng.choice("(){}[].,;:=+-*/^'\"\\#`~!&|<>?_ae01 \n\té\xa0")
        elif op == 3:
            j = rng.randrange(len(b))
            b[k], b[j] = b[j], b[k]
        else:
            b.insert(k, rng.choice("(){}[].,;:=+-*/^'\"\\#`"))
    return "".join(b)


def mutate_tokens(rng, text, n=1):
    t = toks(text)
    for _ in range(n):
        if not t:
            t = [rng.choice(TOKEN_POOL)]
            continue
        k = rng.randrange(len(t))
        op = rng.randrange(5)
        if op == 0:
            del t[k]
        elif op == 1:
            t.insert(k, t[k])
        elif op == 2:
            t[k] = rng.choice(TOKEN_POOL)
        elif op == 3:
            j = rng.randrange(len(t))
            t[k], t[j] = t[j], t[k]
        else:
            t.insert(k, rng.choice(TOKEN_POOL))
    return "".join(t)


def token_soup(rng, n):
    return " ".join(rng.choice(TOKEN_POOL) for _ in range(n))


def random_unicode(rng, n):
    out = []
    for _ in range(n):
        r = rng.random()
        if r < 0.6:
            out.append(chr(rng.randrange(32, 127)))
        elif r < 0.75:
            out.append(rng.choice(" \n\t\r"))
        elif r < 0.9:
            cp = rng.randrange(0xA0, 0x800)
            if unicodedata.category(chr(cp)) == "Cn":
                cp = 0xE9
            out.append(chr(cp))
        else:
            cp = rng.randrange(0x800, 0x2FFFF)
            # only code points assigned in this Python's Unicode tables: the lexer's \d follows a
            # newer Unicode version, unassigned code points could be digits there
            if 0xD800 <= cp <= 0xDFFF or unicodedata.category(chr(cp)) == "Cn":
                cp = 0x4E2D
            out.append(chr(cp))
    return "".join(out)


def nested(depth, kind):
    if kind == 0:
        return "x :: " + "(" * depth + "1" + ")" * depth + ";"
    if kind == 1:
        return "x :: () { " + "{" * depth + "}" * depth + " }"
    if kind == 2:
        return "x :: " + "[" * depth + "1" + "]" * depth + ";"
    if kind == 3:
        return "x :: " + "-" * depth + "1;"
    if kind == 4:
        return "x :: " + "^" * depth + "i32;"
    return "x :: 1" + " + 1" * depth + ";"


def mutant_stream(seed, count, max_len=65536):
    """Deterministic stream of (origin, text) mutated inputs."""
    rng = random.Random(seed)
    base = all_texts()
    out = []
    while len(out) < count:
        r = rng.random()
        if r < 0.45:
            name, t = rng.choice(base)
            out.append(("tok:" + name, mutate_tokens(rng, t, rng.randrange(1, 4))))
        elif r < 0.75:
            name, t = rng.choice(base)
            out.append(("byte:" + name, mutate_bytes(rng, t, rng.randrange(1, 4))))
        elif r < 0.9:
            out.append(("soup", token_soup(rng, rng.randrange(1, 40))))
        else:
            out.append(("unicode", random_unicode(rng, rng.randrange(1, 200))))
    return [(o, t[:max_len]) for o, t in out]
