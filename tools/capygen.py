"""Seeded generator of well-typed programs in the fragment of spec/CapySem.tla, as JSON abstract
syntax (CIR) plus the renderer to Capy text.  The generator - not the specification - guarantees
determinacy: calls inside expressions are to pure functions, shift amounts are literals below the
width, indices are literals in range or loop counters in range (one deliberate out-of-range access
per faulting program), there is no division.
"""
import random

I32 = ("int", 4, True)
U8 = ("int", 1, False)
I64 = ("int", 8, True)
U32 = ("int", 4, False)
I16 = ("int", 2, True)
BOOL = ("bool",)
CHAR = ("char",)
FN2 = ("fn", (I32, I32), I32)       # (x: i32, y: i32) -> i32
I8 = ("int", 1, True)
U64 = ("int", 8, False)
INTS = [I32, I32, I32, U8, I64, U32, I16, I8, ("int", 2, False), U64]
REC_P = ("rec", "P", (("a", I32), ("b", U8)))
REC_Q = ("rec", "Q", (("p", REC_P), ("k", I64), ("f", BOOL)))
OPT_I32 = ("opt", I32)
OPT_P = ("opt", REC_P)
ENUM_E = ("enum", "E", (("A", I32), ("B", U8), ("C", None), ("D", REC_P)))
U16 = ("int", 2, False)
REC_PR = ("rec", "PR", (("b", U8), ("a", I32)))            # P with its members in the other order
REC_PW = ("rec", "PW", (("a", I64), ("b", U16)))           # P with wider members
REC_R2 = ("rec", "R2", (("x", I32), ("y", I32)))
REC_R2S = ("rec", "R2s", (("y", I32), ("x", I32)))         # same member types position by position, names swapped
REC_Q2 = ("rec", "Q2", (("r", REC_R2), ("k", I64)))
REC_Q2S = ("rec", "Q2s", (("k", I32), ("r", REC_R2S)))
SCASTS = [(REC_P, REC_PR), (REC_PR, REC_P), (REC_P, REC_PW), (REC_PW, REC_P), (REC_R2, REC_R2S), (REC_R2S, REC_R2),
          (REC_Q2, REC_Q2S), (("arr", 2, REC_R2), ("arr", 2, REC_R2S)), (("arr", 2, REC_P), ("arr", 2, REC_PW))]
PTR_P = ("ptr", True, REC_P)
OPT_PI = ("opt", ("ptr", True, I32))
REC_H = ("rec", "H", (("k", I32), ("p", PTR_P), ("o", OPT_PI)))      # a struct that holds pointers
EU_BI = ("eu", BOOL, I32)          # bool!i32
EU_PL = ("eu", REC_P, I64)         # P!i64
EU_EL = ("eu", ENUM_E, I64)        # E!i64: an enum as the error type
OPT_E = ("opt", ENUM_E)            # ?E
SUMS = [OPT_I32, OPT_I32, OPT_P, ENUM_E, EU_BI, EU_BI, EU_PL, EU_EL, OPT_E]


def tyname(t):
    if t[0] == "int":
        return ("i" if t[2] else "u") + str(8 * t[1])
    if t[0] == "bool":
        return "bool"
    if t[0] == "char":
        return "char"
    if t[0] == "fn":
        return "(%s) -> %s" % (", ".join("%s: %s" % ("xyzw"[k], tyname(a)) for k, a in enumerate(t[1])), tyname(t[2]))
    if t[0] == "arr":
        return "[%d]%s" % (t[1], tyname(t[2]))
    if t[0] == "rec":
        return t[1]
    if t[0] == "opt":
        return "?" + tyname(t[1])
    if t[0] == "enum":
        return t[1]
    if t[0] == "eu":
        return "%s!%s" % (tyname(t[1]), tyname(t[2]))
    if t[0] == "ptr":
        return ("^mut " if t[1] else "^") + tyname(t[2])
    if t[0] == "slice":
        return "[]" + tyname(t[1])
    if t[0] == "vararg":
        return "..." + tyname(t[1])
    raise ValueError(t)


def jty(t):
    return {"w": t[1], "s": t[2]}


NONE = {"e": "none"}


class Gen:
    def __init__(self, seed, size=22, fault=False):
        self.r = random.Random(seed)
        self.size = size
        self.n = 0
        self.scopes = []          # list of dict name -> (type, mutable)
        self.fns = []             # (name, param types, ret type)
        self.loops = []           # labels of enclosing loops ("" = unlabeled)
        self.blocks = []          # labels of enclosing labeled blocks with their value type
        self.in_fn_ret = None
        self.want_fault = fault
        self.budget = 0
        self.noprint = False      # helper functions are pure: they are called inside expressions
        self.has_try = False
        self.ptr_helpers = False
        self.fn_ops = []          # names of the global (x: i32, y: i32) -> i32 functions
        self.globals = {}         # global constants: name -> (type, False)

    def fresh(self, p="v"):
        self.n += 1
        return "%s_%d" % (p, self.n)

    # ---------------------------------------------------------------- lookups
    def vars_of(self, pred):
        out = []
        seen = set()
        for sc in reversed(self.scopes):
            for n, (t, m) in sc.items():
                if n not in seen:
                    seen.add(n)
                    if pred(t, m):
                        out.append((n, t, m))
        return out

    def declare(self, n, t, m):
        self.scopes[-1][n] = (t, m)

    # ------------------------------------------------------------ expressions
    def lit(self, t):
        if t[0] == "bool":
            return {"e": "bool", "v": self.r.random() < 0.5}
        w = t[1]
        hi = (1 << (8 * w - (1 if t[2] else 0))) - 1
        v = self.r.choice([0, 1, 2, 3, 5, 7, 10, 100, 127, 128, 255, 1000, 65535, hi, hi - 1, self.r.randrange(0, 1 << 16)])
        v = min(v, hi)
        return {"e": "int", "ty": jty(t), "b": list(v.to_bytes(w, "little"))}

    def expr(self, t, d=0):
        r = self.r
        if t[0] == "arr":
            cands = self.vars_of(lambda vt, m: vt == t)
            if cands and r.random() < 0.5:
                return {"e": "var", "n": r.choice(cands)[0], "ty": t}
            return {"e": "arr", "elem": t[2], "es": [self.expr(t[2], d + 1) for _ in range(t[1])]}
        if t[0] == "rec":
            cands = self.vars_of(lambda vt, m: vt == t)
            if cands and r.random() < 0.5:
                return {"e": "var", "n": r.choice(cands)[0], "ty": t}
            if t == REC_P:
                qs = self.vars_of(lambda vt, m: vt == REC_Q)
                if qs and r.random() < 0.3:
                    return {"e": "fld", "x": {"e": "var", "n": r.choice(qs)[0], "ty": REC_Q}, "f": "p"}
            return {"e": "rec", "ty": t[1], "fs": [{"n": fn, "x": self.expr(ft, d + 1)} for fn, ft in t[2]]}
        if t[0] in ("opt", "enum", "eu"):
            cands = self.vars_of(lambda vt, m: vt == t)
            if cands and r.random() < 0.5:
                return {"e": "var", "n": r.choice(cands)[0], "ty": t}
            return self.sum_lit(t, d)
        if t == CHAR:
            cands = self.vars_of(lambda vt, m: vt == CHAR)
            k = r.random()
            if cands and k < 0.5:
                return {"e": "var", "n": r.choice(cands)[0], "ty": CHAR}
            if k < 0.8 or d > 2:
                return {"e": "int", "ty": {"w": 1, "s": False}, "b": [r.choice(b"azAZ09_ qx")], "char": True}
            return {"e": "cast", "ty": {"w": 1, "s": False}, "x": self.expr(U8, d + 1), "tychar": True}
        if t == FN2:
            cands = [{"e": "var", "n": c[0], "ty": FN2} for c in self.vars_of(lambda vt, m: vt == FN2)]
            cands += [{"e": "fnref", "f": f} for f in self.fn_ops]
            return r.choice(cands)
        if t[0] == "bool":
            k = r.random()
            if d > 2 or k < 0.2:
                cands = self.vars_of(lambda vt, m: vt == BOOL)
                if cands and r.random() < 0.6:
                    return {"e": "var", "n": r.choice(cands)[0], "ty": BOOL}
                return self.lit(BOOL)
            if k < 0.65:
                it = r.choice(INTS)
                return {"e": "bin", "op": r.choice(["lt", "le", "gt", "ge", "eq", "ne"]),
                        "l": self.expr(it, d + 1), "r": self.expr(it, d + 1)}
            if k < 0.69:
                return {"e": "bin", "op": r.choice(["eq", "ne"]), "l": self.expr(CHAR, d + 1), "r": self.expr(CHAR, d + 1)}
            if k < 0.85:
                return {"e": "bin", "op": r.choice(["land", "lor"]), "l": self.expr(BOOL, d + 1), "r": self.expr(BOOL, d + 1)}
            if k < 0.93:
                return {"e": "un", "op": "not", "x": self.expr(BOOL, d + 1)}
            qs = self.vars_of(lambda vt, m: vt == REC_Q)
            if qs:
                return {"e": "fld", "x": {"e": "var", "n": r.choice(qs)[0], "ty": REC_Q}, "f": "f"}
            return self.lit(BOOL)
        # integers
        if t == I32 and self.fn_ops and d < 2 and r.random() < 0.07:
            return self.vararg_call(d)
        k = r.random()
        if d > 2 or k < 0.25:
            cands = self.vars_of(lambda vt, m: vt == t)
            if cands and r.random() < 0.7:
                return {"e": "var", "n": r.choice(cands)[0], "ty": t}
            return self.lit(t)
        if k < 0.55:
            op = r.choice(["add", "sub", "mul", "and", "or", "xor", "add", "sub"])
            return {"e": "bin", "op": op, "l": self.expr(t, d + 1), "r": self.expr(t, d + 1)}
        if k < 0.62:
            amt = r.randrange(0, 8 * t[1])
            return {"e": "bin", "op": r.choice(["shl", "shr"]), "l": self.expr(t, d + 1),
                    "r": {"e": "int", "ty": jty(t), "b": list(amt.to_bytes(t[1], "little"))}}
        if k < 0.7:
            src = r.choice(INTS + [BOOL, CHAR]) if t == U8 else r.choice(INTS + [BOOL])
            if src != t:
                return {"e": "cast", "ty": jty(t), "x": self.expr(src, d + 1)}
        if k < 0.75:
            return {"e": "un", "op": "neg" if t[2] else "bnot", "x": self.expr(t, d + 1)}
        if k < 0.79 and t == I32 and self.fn_ops:
            # a call through a function value: directly, or handed to apply2
            fv = self.expr(FN2)
            a, b = self.expr(I32, d + 1), self.expr(I32, d + 1)
            if r.random() < 0.5:
                return {"e": "callv", "x": fv, "args": [a, b]}
            return {"e": "call", "f": "apply2", "args": [fv, a, b]}
        if k < 0.83:
            fs = [f for f in self.fns if f[2] == t]
            if fs:
                f = r.choice(fs)
                return {"e": "call", "f": f[0], "args": [self.expr(pt, d + 1) for pt in f[1]]}
        if k < 0.9:
            arrs = self.vars_of(lambda vt, m: vt[0] == "arr" and vt[2] == t)
            if arrs:
                n, at, _ = r.choice(arrs)
                return {"e": "idx", "a": {"e": "var", "n": n, "ty": at}, "i": self.index_lit(r.randrange(at[1]))}
            recs = self.vars_of(lambda vt, m: vt[0] == "rec")
            for n, rt, _ in recs:
                for fn, ft in rt[2]:
                    if ft == t:
                        return {"e": "fld", "x": {"e": "var", "n": n, "ty": rt}, "f": fn}
        if k < 0.96 and d < 2:
            return {"e": "ifx", "c": self.expr(BOOL, d + 1), "t": self.value_block(t, d + 1), "f": self.value_block(t, d + 1)}
        return self.lit(t)

    def variants(self, t):
        """[(variant number, payload type or None, type text of the variant)]"""
        if t[0] == "opt":
            return [(1, t[1], tyname(t[1])), (2, None, "nil")]
        if t[0] == "eu":          # 1 = the success value, 2 = the error
            return [(1, t[2], tyname(t[2])), (2, t[1], tyname(t[1]))]
        return [(k + 1, pt, "%s.%s" % (t[1], vn)) for k, (vn, pt) in enumerate(t[2])]

    def sum_lit(self, t, d=0):
        k, pt, _ = self.r.choice(self.variants(t))
        if pt == ENUM_E and t in (EU_EL, OPT_E):
            # the variant itself (not yet converted to its enum) goes into the optional / error union
            inner = self.sum_lit(ENUM_E, d + 1)
            inner["raw"] = True
            return {"e": "variant", "k": k, "x": inner, "sty": t}
        return {"e": "variant", "k": k, "x": self.expr(pt, d + 1) if pt is not None else NONE, "sty": t}

    def stmt_sum(self):
        """statements around one sum-typed value: build it, maybe reassign it, #is_variant, a switch whose arms
        print the payload, a guarded #unwrap, and (optionals of i32) a call of the .try helper"""
        r = self.r
        t = r.choice(SUMS)
        n = self.fresh("s")
        if t == ENUM_E and r.random() < 0.4:
            # two different variants, not yet converted to the enum, unified by if / else
            (k1, p1, _), (k2, p2, _) = r.sample(self.variants(t), 2)
            raw = lambda k, pt: {"e": "blk", "label": "", "ss": [], "tail": {
                "e": "variant", "k": k, "x": self.expr(pt, 1) if pt is not None else NONE, "sty": t, "raw": True}}
            ss = [{"s": "let", "n": n, "ty": t, "mut": True, "noann": True,
                   "x": {"e": "ifx", "c": self.expr(BOOL), "t": raw(k1, p1), "f": raw(k2, p2)}}]
        else:
            ss = [{"s": "let", "n": n, "x": self.sum_lit(t), "ty": t, "mut": True}]
        self.declare(n, t, True)
        var = {"e": "var", "n": n, "ty": t}
        if r.random() < 0.5:
            ss.append({"s": "if", "c": self.expr(BOOL), "t": {"e": "blk", "label": "", "ss": [
                {"s": "set", "l": {"l": "var", "n": n}, "x": self.sum_lit(t)}], "tail": NONE}, "f": NONE})
        vs = self.variants(t)
        k, pt, _ = r.choice(vs)
        ss.append({"s": "print", "ty": BOOL, "x": {"e": "isvar", "x": var, "k": k, "sty": t}})
        # switch: a random subset of arms in random order, default if not exhaustive (or anyway)
        order = vs[:]
        r.shuffle(order)
        keep = order[:r.randrange(1, len(order) + 1)]
        arms = []
        b = self.fresh("w")
        for (vk, vpt, _) in keep:
            self.scopes.append({})
            body = []
            if vpt is not None:
                if t[0] in ("opt", "eu"):
                    self.declare(b, vpt, False)     # (an enum arm's argument has the variant's nominal type:
                                                    # generated expressions must not use it as a plain value)
                if vpt[0] == "int":
                    # the argument of an enum arm has the variant's own (nominal) type: cast it
                    body.append({"s": "print", "ty": vpt, "x": {"e": "cast", "ty": jty(vpt), "x": {"e": "var", "n": b, "ty": vpt}}
                                 if t[0] == "enum" else {"e": "var", "n": b, "ty": vpt}})
                elif vpt == BOOL:
                    body.append({"s": "print", "ty": BOOL, "x": {"e": "var", "n": b, "ty": BOOL}})
                elif vpt == ENUM_E:
                    for ek in (1, 3):
                        body.append({"s": "print", "ty": BOOL, "x": {"e": "isvar", "x": {"e": "var", "n": b, "ty": ENUM_E}, "k": ek, "sty": ENUM_E}})
                else:
                    body.append({"s": "print", "ty": I32, "x": {"e": "fld", "x": {"e": "var", "n": b, "ty": vpt}, "f": "a"}})
            body.append({"s": "print", "ty": I32, "x": self.lit(I32)})
            if self.budget > 0 and r.random() < 0.4:
                self.budget -= 1
                body.append(self.stmt())
            self.scopes.pop()
            arms.append({"k": vk, "body": {"e": "blk", "label": "", "ss": body, "tail": NONE}})
        dflt = NONE
        if len(keep) < len(vs) or r.random() < 0.3:
            dflt = {"e": "blk", "label": "", "ss": [
                {"s": "print", "ty": BOOL, "x": {"e": "isvar", "x": {"e": "var", "n": b, "ty": t}, "k": vs[0][0], "sty": t}}], "tail": NONE}
        ss.append({"s": "switch", "x": var, "bind": b, "arms": arms, "dflt": dflt, "sty": t})
        # a guarded unwrap
        if pt is not None and pt[0] == "int":
            ss.append({"s": "if", "c": {"e": "isvar", "x": var, "k": k, "sty": t},
                       "t": {"e": "blk", "label": "", "ss": [{"s": "print", "ty": pt, "x": {"e": "cast", "ty": jty(pt), "x": {"e": "unwrap", "x": var, "k": k, "sty": t}}
                                                                  if t[0] == "enum" else {"e": "unwrap", "x": var, "k": k, "sty": t}}], "tail": NONE},
                       "f": NONE})
        if t == OPT_I32 and self.has_try:
            res = self.fresh("s")
            ss.append({"s": "let", "n": res, "ty": OPT_I32, "mut": False,
                       "x": {"e": "call", "f": "try_add", "args": [var, self.expr(I32)]}})
            self.declare(res, OPT_I32, False)
            ss.append({"s": "print", "ty": BOOL, "x": {"e": "isvar", "x": {"e": "var", "n": res, "ty": OPT_I32}, "k": 2, "sty": OPT_I32}})
        if t == EU_BI and self.has_try:
            res = self.fresh("s")
            ss.append({"s": "let", "n": res, "ty": EU_BI, "mut": False,
                       "x": {"e": "call", "f": "try_eu", "args": [var, self.expr(I32)]}})
            self.declare(res, EU_BI, False)
            rv = {"e": "var", "n": res, "ty": EU_BI}
            ss.append({"s": "print", "ty": BOOL, "x": {"e": "isvar", "x": rv, "k": 2, "sty": EU_BI}})
            # the propagated error is the original error value
            ss.append({"s": "if", "c": {"e": "isvar", "x": rv, "k": 2, "sty": EU_BI},
                       "t": {"e": "blk", "label": "", "ss": [{"s": "print", "ty": BOOL, "x": {"e": "unwrap", "x": rv, "k": 2, "sty": EU_BI}}], "tail": NONE},
                       "f": {"e": "blk", "label": "", "ss": [{"s": "print", "ty": I32, "x": {"e": "unwrap", "x": rv, "k": 1, "sty": EU_BI}}], "tail": NONE}})
        return ss

    # ---------------------------------------------------------------- pointers
    def int_lit(self, t, v):
        return {"e": "int", "ty": jty(t), "b": list((v % (1 << (8 * t[1]))).to_bytes(t[1], "little"))}

    def ptr_helper_fns(self):
        """fixed helper functions that store / read through pointer parameters (frames below the
        caller's are written from above; h_rec passes its pointer down several frames)"""
        def var(n):
            return {"e": "var", "n": n}
        def der(n, auto=False):
            return {"e": "deref", "x": var(n), "auto": auto}
        def dpl(n, auto=False):
            return {"l": "deref", "p": var(n), "auto": auto}
        c = lambda v: self.int_lit(I32, v)
        k1, k2, k3 = self.r.randrange(2, 9), self.r.randrange(1, 100), self.r.randrange(1, 50)
        blk = lambda ss, tail: {"e": "blk", "label": "", "ss": ss, "tail": tail}
        fns = []
        # h_i :: (q: ^mut i32, v: i32) -> i32 { old : i32 : q^; q^ = q^ * k1 + v; old }
        fns.append({"name": "h_i", "params": [{"n": "q", "ty": ("ptr", True, I32)}, {"n": "v", "ty": I32}], "ret": I32,
                    "body": blk([{"s": "let", "n": "old", "x": der("q"), "ty": I32, "mut": False},
                                 {"s": "set", "l": dpl("q"), "x": {"e": "bin", "op": "add", "l": {"e": "bin", "op": "mul", "l": der("q"), "r": c(k1)}, "r": var("v")}}],
                                var("old"))})
        # h_P :: (q: ^mut P, v: u8) -> i32 { q.b = v; q^.a = q.a + k2; q.a }
        fns.append({"name": "h_P", "params": [{"n": "q", "ty": ("ptr", True, REC_P)}, {"n": "v", "ty": U8}], "ret": I32,
                    "body": blk([{"s": "set", "l": {"l": "fld", "x": dpl("q", True), "f": "b"}, "x": var("v")},
                                 {"s": "set", "l": {"l": "fld", "x": dpl("q"), "f": "a"},
                                  "x": {"e": "bin", "op": "add", "l": {"e": "fld", "x": der("q", True), "f": "a"}, "r": c(k2)}}],
                                {"e": "fld", "x": der("q", True), "f": "a"})})
        # h_A :: (q: ^mut [3]i32, k: i32) -> i32 { q[0] = q[1] + k; q^[2] ~= k3; q^[0] }
        i = lambda n: self.index_lit(n)
        fns.append({"name": "h_A", "params": [{"n": "q", "ty": ("ptr", True, ("arr", 3, I32))}, {"n": "k", "ty": I32}], "ret": I32,
                    "body": blk([{"s": "set", "l": {"l": "idx", "a": dpl("q", True), "i": i(0)},
                                  "x": {"e": "bin", "op": "add", "l": {"e": "idx", "a": der("q", True), "i": i(1)}, "r": var("k")}},
                                 {"s": "cset", "op": "xor", "l": {"l": "idx", "a": dpl("q"), "i": i(2)}, "x": c(k3)}],
                                {"e": "idx", "a": der("q"), "i": i(0)})})
        # g_P :: (q: ^P) -> i32 { q.a + i32.(q^.b) }
        fns.append({"name": "g_P", "params": [{"n": "q", "ty": ("ptr", False, REC_P)}], "ret": I32,
                    "body": blk([], {"e": "bin", "op": "add", "l": {"e": "fld", "x": der("q", True), "f": "a"},
                                     "r": {"e": "cast", "ty": jty(I32), "x": {"e": "fld", "x": der("q"), "f": "b"}}})})
        # h_rec :: (q: ^mut i32, n: i32) { if n > 0 { q^ = q^ + n; h_rec(q, n - 1); } }
        fns.append({"name": "h_rec", "params": [{"n": "q", "ty": ("ptr", True, I32)}, {"n": "n", "ty": I32}], "ret": None,
                    "body": blk([{"s": "if", "c": {"e": "bin", "op": "gt", "l": var("n"), "r": c(0)},
                                  "t": blk([{"s": "set", "l": dpl("q"), "x": {"e": "bin", "op": "add", "l": der("q"), "r": var("n")}},
                                            {"s": "expr", "x": {"e": "call", "f": "h_rec", "args": [var("q"), {"e": "bin", "op": "sub", "l": var("n"), "r": c(1)}]}}],
                                           NONE),
                                  "f": NONE}], NONE)})
        return fns

    def stmt_ptr(self):
        """statements that take a pointer to (part of) a mutable variable and store / read through
        it, through the variable itself, and through helper functions"""
        r = self.r
        ok = lambda vt, m: m and (vt in (I32, REC_P, REC_Q, ("arr", 3, I32)) or vt == ("arr", 2, REC_P))
        cands = self.vars_of(ok)
        ss = []
        if not cands or r.random() < 0.3:
            t = r.choice([I32, REC_P, REC_Q, ("arr", 3, I32), ("arr", 2, REC_P)])
            x = self.fresh()
            ss.append({"s": "let", "n": x, "x": self.expr(t), "ty": t, "mut": True})
            self.declare(x, t, True)
        else:
            x, t, _ = r.choice(cands)
        # the pointed-to place: the variable or a part of it
        l = {"l": "var", "n": x}
        while True:
            if t[0] == "arr" and t != ("arr", 3, I32) or (t == ("arr", 3, I32) and r.random() < 0.4):
                l = {"l": "idx", "a": l, "i": self.index_lit(r.randrange(t[1]))}
                t = t[2]
            elif t == REC_Q and r.random() < 0.7:
                l = {"l": "fld", "x": l, "f": "p"}
                t = REC_P
            elif t == REC_P and r.random() < 0.4:
                l = {"l": "fld", "x": l, "f": "a"}
                t = I32
            else:
                break
        pn = self.fresh("q")
        ss.append({"s": "let", "n": pn, "x": {"e": "ref", "l": l, "m": True}, "ty": ("ptr", True, t), "mut": False})
        pv = {"e": "var", "n": pn}
        der = lambda auto=False: {"e": "deref", "x": pv, "auto": auto}
        dpl = lambda auto=False: {"l": "deref", "p": pv, "auto": auto}
        xv = lambda: self.read_of(l)

        def show():
            if t == I32:
                return [{"s": "print", "x": r.choice([der(), xv()]), "ty": I32}]
            if t == REC_P:
                return [{"s": "print", "x": {"e": "fld", "x": der(r.random() < 0.5), "f": "a"}, "ty": I32},
                        {"s": "print", "x": {"e": "fld", "x": r.choice([der(True), xv()]), "f": "b"}, "ty": U8}]
            if t == REC_Q:
                return [{"s": "print", "x": {"e": "fld", "x": {"e": "fld", "x": der(True), "f": "p"}, "f": "a"}, "ty": I32},
                        {"s": "print", "x": {"e": "fld", "x": xv(), "f": "k"}, "ty": I64}]
            return [{"s": "print", "x": {"e": "idx", "a": r.choice([der(True), der(), xv()]), "i": self.index_lit(k)}, "ty": I32}
                    for k in range(3)]
        for _ in range(r.randrange(2, 5)):
            k = r.random()
            if t == I32:
                if k < 0.3:
                    ss.append({"s": "set", "l": dpl(), "x": self.expr(I32)})
                elif k < 0.5:
                    ss.append({"s": "cset", "op": r.choice(["add", "mul", "xor"]), "l": dpl(), "x": self.expr(I32)})
                elif k < 0.7:
                    tmp = self.fresh()
                    ss.append({"s": "let", "n": tmp, "x": {"e": "call", "f": "h_i", "args": [pv, self.expr(I32, 2)]}, "ty": I32, "mut": False})
                    ss.append({"s": "print", "x": {"e": "var", "n": tmp}, "ty": I32})
                elif k < 0.85:
                    ss.append({"s": "expr", "x": {"e": "call", "f": "h_rec", "args": [pv, self.int_lit(I32, r.randrange(0, 4))]}})
                else:
                    ss.append({"s": "set", "l": l, "x": self.expr(I32)})      # through the variable itself
            elif t == REC_P:
                if k < 0.3:
                    ss.append({"s": "set", "l": {"l": "fld", "x": dpl(r.random() < 0.5), "f": "a"}, "x": self.expr(I32)})
                elif k < 0.45:
                    ss.append({"s": "cset", "op": "add", "l": {"l": "fld", "x": dpl(True), "f": "b"}, "x": self.expr(U8)})
                elif k < 0.6:
                    ss.append({"s": "set", "l": dpl(), "x": self.expr(REC_P)})       # whole struct through the pointer
                elif k < 0.8:
                    tmp = self.fresh()
                    ss.append({"s": "let", "n": tmp, "x": {"e": "call", "f": "h_P", "args": [pv, self.expr(U8, 2)]}, "ty": I32, "mut": False})
                    ss.append({"s": "print", "x": {"e": "var", "n": tmp}, "ty": I32})
                elif k < 0.9:
                    ss.append({"s": "print", "x": {"e": "call", "f": "g_P", "args": [r.choice([pv, {"e": "ref", "l": l, "m": False}])]}, "ty": I32})
                else:
                    # a copy taken through the pointer does not follow later stores
                    cp = self.fresh()
                    ss.append({"s": "let", "n": cp, "x": der(), "ty": REC_P, "mut": False})
                    ss.append({"s": "set", "l": {"l": "fld", "x": dpl(True), "f": "a"}, "x": self.expr(I32)})
                    ss.append({"s": "print", "x": {"e": "fld", "x": {"e": "var", "n": cp}, "f": "a"}, "ty": I32})
            elif t == REC_Q:
                if k < 0.4:
                    ss.append({"s": "set", "l": {"l": "fld", "x": {"l": "fld", "x": dpl(True), "f": "p"}, "f": "a"}, "x": self.expr(I32)})
                elif k < 0.7:
                    ss.append({"s": "set", "l": {"l": "fld", "x": dpl(), "f": "k"}, "x": self.expr(I64)})
                else:
                    ss.append({"s": "set", "l": {"l": "fld", "x": l, "f": "p"}, "x": self.expr(REC_P)})
            else:
                if k < 0.35:
                    ss.append({"s": "set", "l": {"l": "idx", "a": dpl(r.random() < 0.5), "i": self.index_lit(r.randrange(3))}, "x": self.expr(I32)})
                elif k < 0.5:
                    ss.append({"s": "cset", "op": "sub", "l": {"l": "idx", "a": dpl(True), "i": self.index_lit(r.randrange(3))}, "x": self.expr(I32)})
                elif k < 0.8:
                    tmp = self.fresh()
                    ss.append({"s": "let", "n": tmp, "x": {"e": "call", "f": "h_A", "args": [pv, self.expr(I32, 2)]}, "ty": I32, "mut": False})
                    ss.append({"s": "print", "x": {"e": "var", "n": tmp}, "ty": I32})
                else:
                    ss.append({"s": "set", "l": {"l": "idx", "a": l, "i": self.index_lit(r.randrange(3))}, "x": self.expr(I32)})
            ss += show()
        return ss

    # ------------------------------------------------------------------ slices
    def usize_lit(self, v):
        return {"e": "int", "ty": {"w": 8, "s": False}, "b": list(v.to_bytes(8, "little")), "usize": True}

    def slice_helper_fns(self):
        var = lambda n: {"e": "var", "n": n}
        blk = lambda ss, tail: {"e": "blk", "label": "", "ss": ss, "tail": tail}
        US = ("int", 8, False)
        SL = ("slice", I32)
        k = self.r.randrange(2, 6)
        # sl_sum :: (s: []i32) -> i32 { t : i32 = 0; i : usize = 0; while i < s.len { t = t * k + s[i]; i += 1; } t }
        loop = {"s": "while", "label": "", "c": {"e": "bin", "op": "lt", "l": var("i"), "r": {"e": "len", "x": var("s")}},
                "body": blk([{"s": "set", "l": {"l": "var", "n": "t"},
                              "x": {"e": "bin", "op": "add", "l": {"e": "bin", "op": "mul", "l": var("t"), "r": self.int_lit(I32, k)},
                                    "r": {"e": "idx", "a": var("s"), "i": var("i")}}},
                             {"s": "cset", "op": "add", "l": {"l": "var", "n": "i"}, "x": self.usize_lit(1)}], NONE)}
        f1 = {"name": "sl_sum", "params": [{"n": "s", "ty": SL}], "ret": I32,
              "body": blk([{"s": "let", "n": "t", "x": self.int_lit(I32, 0), "ty": I32, "mut": True},
                           {"s": "let", "n": "i", "x": self.usize_lit(0), "ty": US, "mut": True, "usize": True},
                           loop], var("t"))}
        # sl_set :: (s: []i32, i: usize, v: i32) { t : []i32 = s; t[i] = v; }   (parameters are immutable)
        f2 = {"name": "sl_set", "params": [{"n": "s", "ty": SL}, {"n": "i", "ty": "usize"}, {"n": "v", "ty": I32}], "ret": None,
              "body": blk([{"s": "let", "n": "t", "x": var("s"), "ty": SL, "mut": True},
                           {"s": "set", "l": {"l": "idx", "a": {"l": "var", "n": "t"}, "i": var("i")}, "x": var("v")}], NONE)}
        return [f1, f2]

    def stmt_slice(self):
        """a slice over a mutable [n]i32 variable: reads, stores through it and through the array,
        .len, helper calls, re-pointing it at an array of another length, copying it back"""
        r = self.r
        ss = []

        def arr_var(avoid=None):
            cands = [c for c in self.vars_of(lambda vt, m: m and vt[0] == "arr" and vt[2] == I32) if c[0] != avoid]
            if cands and r.random() < 0.6:
                return r.choice(cands)[:2]
            n = r.choice([2, 3, 4])
            t = ("arr", n, I32)
            x = self.fresh()
            ss.append({"s": "let", "n": x, "x": self.expr(t), "ty": t, "mut": True})
            self.declare(x, t, True)
            return x, t
        a, at = arr_var()
        n = at[1]
        sn = self.fresh("s")
        SL = ("slice", I32)
        ss.append({"s": "let", "n": sn, "x": {"e": "slice", "l": {"l": "var", "n": a}}, "ty": SL, "mut": True})
        sv = {"e": "var", "n": sn}
        av = {"e": "var", "n": a}

        def show():
            k = r.randrange(n)
            out = [{"s": "print", "x": {"e": "idx", "a": r.choice([sv, av]), "i": self.index_lit(k)}, "ty": I32}]
            if r.random() < 0.5:
                out.append({"s": "print", "x": {"e": "call", "f": "sl_sum", "args": [r.choice([sv, {"e": "slice", "l": {"l": "var", "n": a}}])]}, "ty": I32})
            return out
        for _ in range(r.randrange(2, 5)):
            k = r.random()
            if k < 0.3:
                ss.append({"s": "set", "l": {"l": "idx", "a": {"l": "var", "n": sn}, "i": self.index_lit(r.randrange(n))}, "x": self.expr(I32)})
            elif k < 0.45:
                ss.append({"s": "cset", "op": r.choice(["add", "xor"]), "l": {"l": "idx", "a": {"l": "var", "n": sn}, "i": self.index_lit(r.randrange(n))}, "x": self.expr(I32)})
            elif k < 0.6:
                ss.append({"s": "set", "l": {"l": "idx", "a": {"l": "var", "n": a}, "i": self.index_lit(r.randrange(n))}, "x": self.expr(I32)})
            elif k < 0.72:
                ss.append({"s": "expr", "x": {"e": "call", "f": "sl_set", "args": [sv, self.usize_lit(r.randrange(n)), self.expr(I32, 2)]}})
            elif k < 0.8:
                ss.append({"s": "print", "x": {"e": "len", "x": r.choice([sv, av])}, "ty": ("int", 8, False), "usize": True})
            elif k < 0.9:
                # a copy of the referenced array does not follow later stores
                cp = self.fresh()
                ss.append({"s": "let", "n": cp, "x": {"e": "toarr", "x": sv, "n": n}, "ty": at, "mut": False})
                ss.append({"s": "set", "l": {"l": "idx", "a": {"l": "var", "n": sn}, "i": self.index_lit(0)}, "x": self.expr(I32)})
                ss.append({"s": "print", "x": {"e": "idx", "a": {"e": "var", "n": cp}, "i": self.index_lit(0)}, "ty": I32})
            else:
                # the slice now references another array (possibly of another length)
                b, bt = arr_var(avoid=a)
                ss.append({"s": "set", "l": {"l": "var", "n": sn}, "x": {"e": "slice", "l": {"l": "var", "n": b}}})
                a, at, n, av = b, bt, bt[1], {"e": "var", "n": b}
                ss.append({"s": "print", "x": {"e": "len", "x": sv}, "ty": ("int", 8, False), "usize": True})
            ss += show()
        return ss

    # ------------------------------------------------- pointers inside aggregates
    def holder_fns(self):
        var = lambda n: {"e": "var", "n": n}
        blk = lambda ss, tail=NONE: {"e": "blk", "label": "", "ss": ss, "tail": tail}
        hp = lambda auto: {"l": "deref", "p": {"e": "fld", "x": var("h"), "f": "p"}, "auto": auto}
        hpr = lambda auto: {"e": "deref", "x": {"e": "fld", "x": var("h"), "f": "p"}, "auto": auto}
        ho = {"e": "fld", "x": var("h"), "f": "o"}
        k = self.int_lit(I32, self.r.randrange(2, 5))
        # hmut :: (h: H, d: i32) -> i32 { h.p.a = h.p.a + d; if #is_variant(h.o, ^mut i32) { q := #unwrap(..); q^ = q^ * k; } h.k }
        f1 = {"name": "hmut", "params": [{"n": "h", "ty": REC_H}, {"n": "d", "ty": I32}], "ret": I32,
              "body": blk([{"s": "set", "l": {"l": "fld", "x": hp(True), "f": "a"},
                            "x": {"e": "bin", "op": "add", "l": {"e": "fld", "x": hpr(True), "f": "a"}, "r": var("d")}},
                           {"s": "if", "c": {"e": "isvar", "x": ho, "k": 1, "sty": OPT_PI},
                            "t": blk([{"s": "let", "n": "q", "x": {"e": "unwrap", "x": ho, "k": 1, "sty": OPT_PI}, "ty": ("ptr", True, I32), "mut": False},
                                      {"s": "set", "l": {"l": "deref", "p": var("q")},
                                       "x": {"e": "bin", "op": "mul", "l": {"e": "deref", "x": var("q")}, "r": k}}]),
                            "f": NONE}],
                          {"e": "fld", "x": var("h"), "f": "k"})}
        # pfirst :: (p: ^mut P) -> ^mut P { p }     (a pointer handed back to the caller)
        f2 = {"name": "pfirst", "params": [{"n": "p", "ty": PTR_P}], "ret": PTR_P, "body": blk([], var("p"))}
        return [f1, f2]

    def stmt_holder(self):
        """a struct whose members point at other variables: stores through h.p / h.o, copies of the
        struct alias the same targets, functions that take the struct by value still write the targets"""
        r = self.r
        ss = []
        pv, iv, h = self.fresh(), self.fresh(), self.fresh("h")
        ss.append({"s": "let", "n": pv, "x": self.expr(REC_P), "ty": REC_P, "mut": True})
        ss.append({"s": "let", "n": iv, "x": self.expr(I32), "ty": I32, "mut": True})
        self.declare(pv, REC_P, True)
        self.declare(iv, I32, True)
        some = lambda: {"e": "variant", "k": 1, "sty": OPT_PI, "x": {"e": "ref", "l": {"l": "var", "n": iv}, "m": True}}
        none = lambda: {"e": "variant", "k": 2, "sty": OPT_PI, "x": NONE}
        ss.append({"s": "let", "n": h, "ty": REC_H, "mut": True, "x": {"e": "rec", "ty": "H", "fs": [
            {"n": "k", "x": self.expr(I32)}, {"n": "p", "x": {"e": "ref", "l": {"l": "var", "n": pv}, "m": True}},
            {"n": "o", "x": some() if r.random() < 0.7 else none()}]}})
        names = [h]
        hv = lambda n: {"e": "var", "n": n}
        hp = lambda n, auto: {"l": "deref", "p": {"e": "fld", "x": hv(n), "f": "p"}, "auto": auto}

        def show():
            return [{"s": "print", "ty": I32, "x": {"e": "fld", "x": hv(pv), "f": "a"}},
                    {"s": "print", "ty": U8, "x": {"e": "fld", "x": {"e": "deref", "x": {"e": "fld", "x": hv(r.choice(names)), "f": "p"}, "auto": r.random() < 0.5}, "f": "b"}},
                    {"s": "print", "ty": I32, "x": hv(iv)}]
        for _ in range(r.randrange(2, 5)):
            k = r.random()
            n = r.choice(names)
            if k < 0.25:
                ss.append({"s": "set", "l": {"l": "fld", "x": hp(n, r.random() < 0.5), "f": r.choice(["a"])}, "x": self.expr(I32)})
            elif k < 0.35:
                ss.append({"s": "set", "l": hp(n, False), "x": self.expr(REC_P)})
            elif k < 0.5 and len(names) < 3:
                h2 = self.fresh("h")
                ss.append({"s": "let", "n": h2, "ty": REC_H, "mut": True, "x": hv(n)})
                ss.append({"s": "set", "l": {"l": "fld", "x": {"l": "var", "n": h2}, "f": "k"}, "x": self.expr(I32)})
                names.append(h2)
                ss.append({"s": "print", "ty": I32, "x": {"e": "fld", "x": hv(n), "f": "k"}})
            elif k < 0.7:
                tmp = self.fresh()
                ss.append({"s": "let", "n": tmp, "ty": I32, "mut": False, "x": {"e": "call", "f": "hmut", "args": [hv(n), self.expr(I32, 2)]}})
                ss.append({"s": "print", "ty": I32, "x": hv(tmp)})
            elif k < 0.8:
                ss.append({"s": "set", "l": {"l": "fld", "x": {"l": "var", "n": n}, "f": "o"}, "x": r.choice([some, none])()})
                ss.append({"s": "print", "ty": BOOL, "x": {"e": "isvar", "x": {"e": "fld", "x": hv(r.choice(names)), "f": "o"}, "k": 2, "sty": OPT_PI}})
            else:
                rp = self.fresh("q")
                ss.append({"s": "let", "n": rp, "ty": PTR_P, "mut": False, "x": {"e": "call", "f": "pfirst", "args": [{"e": "fld", "x": hv(n), "f": "p"}]}})
                ss.append({"s": "cset", "op": "add", "l": {"l": "fld", "x": {"l": "deref", "p": hv(rp), "auto": True}, "f": "b"}, "x": self.expr(U8)})
            ss += show()
        return ss

    # ---------------------------------------------------- casts between aggregates
    def tdesc(self, t):
        if t[0] == "int":
            return {"k": "int", "w": t[1], "s": t[2]}
        if t[0] == "bool":
            return {"k": "bool"}
        if t[0] == "opt":
            return {"k": "opt"}
        if t[0] == "arr":
            return {"k": "arr", "t": self.tdesc(t[2]), "n": t[1]}
        return {"k": "rec", "ns": [f for f, _ in t[2]], "ts": [self.tdesc(ft) for _, ft in t[2]]}

    def lit_of(self, t):
        if t[0] == "arr":
            return {"e": "arr", "elem": t[2], "es": [self.lit_of(t[2]) for _ in range(t[1])]}
        if t[0] == "rec":
            return {"e": "rec", "ty": t[1], "fs": [{"n": fn, "x": self.lit_of(ft)} for fn, ft in t[2]]}
        return self.expr(t, 2)

    def leaves(self, e, t):
        """(expression, type) of every scalar inside the value e of type t"""
        if t[0] == "arr":
            out = []
            for k in range(t[1]):
                out += self.leaves({"e": "idx", "a": e, "i": self.index_lit(k)}, t[2])
            return out
        if t[0] == "rec":
            out = []
            for fn, ft in t[2]:
                out += self.leaves({"e": "fld", "x": e, "f": fn}, ft)
            return out
        return [(e, t)]

    def misc_helper_fns(self):
        var = lambda n: {"e": "var", "n": n}
        blk = lambda ss, tail=NONE: {"e": "blk", "label": "", "ss": ss, "tail": tail}
        # nxt :: (c: ^mut i32) -> usize { c^ += 1; usize.(c^) }      (an index with a side effect)
        f1 = {"name": "nxt", "params": [{"n": "c", "ty": ("ptr", True, I32)}], "ret": "usize",
              "body": blk([{"s": "cset", "op": "add", "l": {"l": "deref", "p": var("c")}, "x": self.int_lit(I32, 1)}],
                          {"e": "cast", "ty": {"w": 8, "s": False}, "tytext": "usize", "x": {"e": "deref", "x": var("c")}})}
        # zp :: (z: Z0, n: i32, v: Z0, m: i32) -> i32 { n * k - m }      (zero-sized parameters before real ones)
        f2 = {"name": "zp", "params": [{"n": "z", "ty": "Z0"}, {"n": "n", "ty": I32}, {"n": "v", "ty": "Z0"}, {"n": "m", "ty": I32}], "ret": I32,
              "body": blk([], {"e": "bin", "op": "sub", "l": {"e": "bin", "op": "mul", "l": var("n"), "r": self.int_lit(I32, self.r.randrange(2, 9))},
                               "r": var("m")})}
        # dt_P :: (c: bool) -> P { p : P = P.{..}; defer { p.a = k; }; if c { return p; } p.b = j; p }
        # (the value a block / function produced is not changed by the defers that run afterwards)
        pl = {"e": "rec", "ty": "P", "fs": [{"n": "a", "x": self.int_lit(I32, self.r.randrange(1, 90))}, {"n": "b", "x": self.int_lit(U8, self.r.randrange(1, 90))}]}
        f3 = {"name": "dt_P", "params": [{"n": "c", "ty": BOOL}], "ret": REC_P,
              "body": blk([{"s": "let", "n": "p", "x": pl, "ty": REC_P, "mut": True},
                           {"s": "defer", "x": {"s": "set", "l": {"l": "fld", "x": {"l": "var", "n": "p"}, "f": "a"}, "x": self.int_lit(I32, self.r.randrange(100, 200))}},
                           {"s": "if", "c": var("c"), "t": blk([{"s": "return", "x": var("p")}]), "f": NONE},
                           {"s": "set", "l": {"l": "fld", "x": {"l": "var", "n": "p"}, "f": "b"}, "x": self.int_lit(U8, self.r.randrange(100, 200))}],
                          var("p"))}
        return [f1, f2, f3]

    def stmt_misc(self):
        """(a) a compound assignment whose destination has a side effect (evaluated once);
        (b) values declared without initialiser (zero / nil member by member), between guard values;
        (c) a call with zero-sized arguments before the real ones"""
        r = self.r
        k = r.random()
        ss = []
        if k < 0.35:
            a, c = self.fresh(), self.fresh()
            t = ("arr", 4, I32)
            ss.append({"s": "let", "n": a, "x": self.expr(t), "ty": t, "mut": True})
            ss.append({"s": "let", "n": c, "x": self.int_lit(I32, 0), "ty": I32, "mut": True})
            idx = {"e": "call", "f": "nxt", "args": [{"e": "ref", "l": {"l": "var", "n": c}, "m": True}]}
            ss.append({"s": "cset", "op": r.choice(["add", "mul", "xor"]), "l": {"l": "idx", "a": {"l": "var", "n": a}, "i": idx}, "x": self.expr(I32)})
            ss.append({"s": "set", "l": {"l": "idx", "a": {"l": "var", "n": a}, "i": idx}, "x": self.expr(I32)})
            ss.append({"s": "print", "ty": I32, "x": {"e": "var", "n": c}})
            for j in range(4):
                ss.append({"s": "print", "ty": I32, "x": {"e": "idx", "a": {"e": "var", "n": a}, "i": self.index_lit(j)}})
        elif k < 0.7:
            g1, x, g2 = self.fresh(), self.fresh(), self.fresh()
            t = r.choice([("arr", r.choice([3, 8]), ("opt", U8)), ("arr", 4, ("opt", U16)), ("arr", 5, U8), ("arr", 3, I16),
                          ("rec", "DZ", (("a", U8), ("o", ("opt", U8)), ("k", I32)))])
            ss.append({"s": "let", "n": g1, "x": self.expr(I64), "ty": I64, "mut": True})
            ss.append({"s": "let", "n": x, "x": {"e": "default", "td": self.tdesc(t)}, "ty": t, "mut": True, "noinit": True})
            ss.append({"s": "let", "n": g2, "x": self.expr(I64), "ty": I64, "mut": True})
            ss.append({"s": "print", "ty": I64, "x": {"e": "var", "n": g1}})
            ss.append({"s": "print", "ty": I64, "x": {"e": "var", "n": g2}})
            xv = {"e": "var", "n": x}
            if t[0] == "arr":
                last = {"e": "idx", "a": xv, "i": self.index_lit(t[1] - 1)}
                if t[2][0] == "opt":
                    ss.append({"s": "print", "ty": BOOL, "x": {"e": "isvar", "x": last, "k": 2, "sty": t[2]}})
                else:
                    ss.append({"s": "print", "ty": t[2], "x": last})
            else:
                ss.append({"s": "print", "ty": I32, "x": {"e": "fld", "x": xv, "f": "k"}})
                ss.append({"s": "print", "ty": BOOL, "x": {"e": "isvar", "x": {"e": "fld", "x": xv, "f": "o"}, "k": 2, "sty": ("opt", U8)}})
        elif k < 0.85:
            z = {"e": "rec", "ty": "Z0", "fs": []}
            ss.append({"s": "print", "ty": I32, "x": {"e": "call", "f": "zp", "args": [z, self.expr(I32), z, self.expr(I32)]}})
        else:
            # aggregate values of functions / labeled blocks whose defers write to what the value named
            for c in (True, False):
                v = self.fresh()
                ss.append({"s": "let", "n": v, "ty": REC_P, "mut": False, "x": {"e": "call", "f": "dt_P", "args": [{"e": "bool", "v": c}]}})
                ss.append({"s": "print", "ty": I32, "x": {"e": "fld", "x": {"e": "var", "n": v}, "f": "a"}})
                ss.append({"s": "print", "ty": U8, "x": {"e": "fld", "x": {"e": "var", "n": v}, "f": "b"}})
            q, v, lab = self.fresh(), self.fresh(), self.fresh("b")
            t = ("arr", 2, I32)
            qv = {"e": "var", "n": q}
            inner = [{"s": "let", "n": q, "x": self.expr(t), "ty": t, "mut": True},
                     {"s": "defer", "x": {"s": "set", "l": {"l": "idx", "a": {"l": "var", "n": q}, "i": self.index_lit(0)}, "x": self.expr(I32)}},
                     {"s": "if", "c": self.expr(BOOL), "t": {"e": "blk", "label": "", "ss": [{"s": "break", "label": lab, "x": qv}], "tail": NONE}, "f": NONE}]
            ss.append({"s": "let", "n": v, "ty": t, "mut": False, "x": {"e": "blk", "label": lab, "ss": inner, "tail": qv}})
            for j in range(2):
                ss.append({"s": "print", "ty": I32, "x": {"e": "idx", "a": {"e": "var", "n": v}, "i": self.index_lit(j)}})
        return ss

    def stmt_scast(self):
        """a value of one aggregate type cast to another one with the same member names: every
        member is converted on its own and found by its name"""
        r = self.r
        src, dst = r.choice(SCASTS)
        a, b = self.fresh(), self.fresh()
        ss = [{"s": "let", "n": a, "x": self.lit_of(src), "ty": src, "mut": True}]
        cast = {"e": "scast", "to": self.tdesc(dst), "tytext": tyname(dst), "x": {"e": "var", "n": a, "ty": src}}
        ss.append({"s": "let", "n": b, "x": cast, "ty": dst, "mut": True})
        for e, t in self.leaves({"e": "var", "n": b, "ty": dst}, dst):
            ss.append({"s": "print", "x": e, "ty": t})
        if src[0] == "rec" and src in (REC_P, REC_PR, REC_PW, REC_R2, REC_R2S):
            self.declare(a, src, True)
        if dst in (REC_P,):
            self.declare(b, dst, True)
        return ss

    def read_of(self, l):
        """the expression reading place l (built from variables only)"""
        if l["l"] == "var":
            return {"e": "var", "n": l["n"]}
        if l["l"] == "idx":
            return {"e": "idx", "a": self.read_of(l["a"]), "i": l["i"]}
        return {"e": "fld", "x": self.read_of(l["x"]), "f": l["f"]}

    def try_helper(self):
        """try_add :: (o: ?i32, d: i32) -> ?i32 { defer ..; v := o.try; v + d }  (the defer must run on both paths)"""
        return {"name": "try_add", "params": [{"n": "o", "ty": OPT_I32}, {"n": "d", "ty": I32}], "ret": OPT_I32,
                "body": {"e": "blk", "label": "", "ss": [
                    {"s": "defer", "x": {"s": "print", "ty": I32, "x": {"e": "var", "n": "d", "ty": I32}}},
                    {"s": "let", "n": "v", "ty": I32, "mut": False, "x": {"e": "try", "x": {"e": "var", "n": "o", "ty": OPT_I32}}}],
                    "tail": {"e": "variant", "k": 1, "sty": OPT_I32,
                             "x": {"e": "bin", "op": "add", "l": {"e": "var", "n": "v", "ty": I32}, "r": {"e": "var", "n": "d", "ty": I32}}}}}

    def op_fn(self, name):
        """a pure (x: i32, y: i32) -> i32"""
        x, y = {"e": "var", "n": "x", "ty": I32}, {"e": "var", "n": "y", "ty": I32}
        k = self.int_lit(I32, self.r.randrange(2, 50))
        body = self.r.choice([
            {"e": "bin", "op": "add", "l": x, "r": y},
            {"e": "bin", "op": "sub", "l": {"e": "bin", "op": "mul", "l": x, "r": k}, "r": y},
            {"e": "bin", "op": "and", "l": {"e": "bin", "op": "xor", "l": x, "r": y}, "r": k},
            {"e": "ifx", "c": {"e": "bin", "op": "lt", "l": x, "r": y},
             "t": {"e": "blk", "label": "", "ss": [], "tail": x}, "f": {"e": "blk", "label": "", "ss": [], "tail": {"e": "bin", "op": "sub", "l": y, "r": k}}}])
        return {"name": name, "params": [{"n": "x", "ty": I32}, {"n": "y", "ty": I32}], "ret": I32,
                "body": {"e": "blk", "label": "", "ss": [], "tail": body}}

    def fn_value_fns(self):
        fns = [self.op_fn("op_a"), self.op_fn("op_b")]
        fns.append({"name": "apply2", "params": [{"n": "fn", "ty": FN2}, {"n": "a", "ty": I32}, {"n": "b", "ty": I32}], "ret": I32,
                    "body": {"e": "blk", "label": "", "ss": [],
                             "tail": {"e": "callv", "x": {"e": "var", "n": "fn"}, "args": [{"e": "var", "n": "a"}, {"e": "var", "n": "b"}]}}})
        return fns

    def vararg_fns(self):
        """va_sum :: (k: i32, xs: ...i32) -> i32  and  va_mid :: (a: ...i32, flag: bool, b: ...u8) -> i32
        (a vararg parameter is the sequence of the arguments given for it; possibly empty)"""
        var = lambda n: {"e": "var", "n": n}
        blk = lambda ss, tail: {"e": "blk", "label": "", "ss": ss, "tail": tail}
        k = self.int_lit(I32, self.r.randrange(2, 7))
        loop = {"s": "while", "label": "", "c": {"e": "bin", "op": "lt", "l": var("i"), "r": {"e": "len", "x": var("xs")}},
                "body": blk([{"s": "set", "l": {"l": "var", "n": "t"},
                              "x": {"e": "bin", "op": "add", "l": {"e": "bin", "op": "mul", "l": var("t"), "r": k},
                                    "r": {"e": "idx", "a": var("xs"), "i": var("i")}}},
                             {"s": "cset", "op": "add", "l": {"l": "var", "n": "i"}, "x": self.usize_lit(1)}], NONE)}
        f1 = {"name": "va_sum", "params": [{"n": "k", "ty": I32}, {"n": "xs", "ty": ("vararg", I32)}], "ret": I32,
              "body": blk([{"s": "let", "n": "t", "x": var("k"), "ty": I32, "mut": True},
                           {"s": "let", "n": "i", "x": self.usize_lit(0), "ty": ("int", 8, False), "mut": True, "usize": True},
                           loop], var("t"))}
        cnt = lambda n: {"e": "cast", "ty": jty(I32), "x": {"e": "len", "x": var(n)}}
        f2 = {"name": "va_mid", "params": [{"n": "a", "ty": ("vararg", I32)}, {"n": "flag", "ty": BOOL}, {"n": "b", "ty": ("vararg", U8)}], "ret": I32,
              "body": blk([{"s": "let", "n": "r", "x": self.int_lit(I32, 0), "ty": I32, "mut": True},
                           {"s": "if", "c": var("flag"), "t": blk([{"s": "set", "l": {"l": "var", "n": "r"}, "x": self.int_lit(I32, 100)}], NONE), "f": NONE}],
                          {"e": "bin", "op": "add", "l": {"e": "bin", "op": "add", "l": var("r"),
                                                          "r": {"e": "bin", "op": "mul", "l": cnt("a"), "r": self.int_lit(I32, 10)}},
                           "r": cnt("b")})}
        # va_two :: (k: i32, a: ...i32, b: ...bool) -> i32 { k + a.len * 10 + b.len }   (two in a row)
        f3 = {"name": "va_two", "params": [{"n": "k", "ty": I32}, {"n": "a", "ty": ("vararg", I32)}, {"n": "b", "ty": ("vararg", BOOL)}], "ret": I32,
              "body": blk([], {"e": "bin", "op": "add", "l": {"e": "bin", "op": "add", "l": var("k"),
                                                              "r": {"e": "bin", "op": "mul", "l": cnt("a"), "r": self.int_lit(I32, 10)}},
                               "r": cnt("b")})}
        return [f1, f2, f3]

    def vararg_call(self, d):
        r = self.r
        pack = lambda t, n: {"e": "arr", "elem": t, "es": [self.expr(t, d + 1) for _ in range(n)], "varargs": True}
        if r.random() < 0.25:
            return {"e": "call", "f": "va_two", "args": [self.expr(I32, d + 1), pack(I32, r.choice([0, 0, 1, 2])), pack(BOOL, r.choice([0, 0, 1, 2]))]}
        if r.random() < 0.6:
            return {"e": "call", "f": "va_sum", "args": [self.expr(I32, d + 1), pack(I32, r.choice([0, 1, 2, 3]))]}
        return {"e": "call", "f": "va_mid", "args": [pack(I32, r.choice([0, 0, 1, 3])), self.expr(BOOL, d + 1), pack(U8, r.choice([0, 1, 2]))]}

    def try_eu_helper(self):
        """try_eu :: (o: bool!i32, d: i32) -> bool!i32 { defer ..; v := o.try; v + d }"""
        return {"name": "try_eu", "params": [{"n": "o", "ty": EU_BI}, {"n": "d", "ty": I32}], "ret": EU_BI,
                "body": {"e": "blk", "label": "", "ss": [
                    {"s": "defer", "x": {"s": "print", "ty": I32, "x": {"e": "var", "n": "d", "ty": I32}}},
                    {"s": "let", "n": "v", "ty": I32, "mut": False, "x": {"e": "try", "x": {"e": "var", "n": "o", "ty": EU_BI}}}],
                    "tail": {"e": "variant", "k": 1, "sty": EU_BI,
                             "x": {"e": "bin", "op": "add", "l": {"e": "var", "n": "v", "ty": I32}, "r": {"e": "var", "n": "d", "ty": I32}}}}}

    def index_lit(self, k):
        return {"e": "int", "ty": {"w": 8, "s": False}, "b": list(k.to_bytes(8, "little")), "usize": True}

    def value_block(self, t, d):
        """{ [let / print]* ; tail } as an expression of type t"""
        self.scopes.append({})
        ss = []
        if self.r.random() < 0.3 and self.budget > 0:
            ss.append(self.stmt_let())
        b = {"e": "blk", "label": "", "ss": ss, "tail": self.expr(t, d + 1)}
        self.scopes.pop()
        return b

    # ------------------------------------------------------------- statements
    def stmt_aggcmp(self):
        """b := a (a copy of an aggregate), possibly one leaf of b changed, then a == b and a != b"""
        r = self.r
        t = r.choice([("arr", r.choice([2, 3]), REC_P), ("arr", 3, I32), ("arr", 2, REC_Q), REC_P, REC_Q, ("arr", 3, U8)])
        a, b = self.fresh(), self.fresh()
        ss = [{"s": "let", "n": a, "x": self.expr(t), "ty": t, "mut": False}]
        self.declare(a, t, False)
        ss.append({"s": "let", "n": b, "x": {"e": "var", "n": a, "ty": t}, "ty": t, "mut": True})
        self.declare(b, t, True)
        if r.random() < 0.7:
            # change one leaf, preferably not the first element
            l, lt = {"l": "var", "n": b}, t
            while lt[0] in ("arr", "rec"):
                if lt[0] == "arr":
                    k = r.randrange(1, lt[1]) if r.random() < 0.8 else 0
                    l = {"l": "idx", "a": l, "i": self.index_lit(k)}
                    lt = lt[2]
                else:
                    fn, ft = r.choice(lt[2])
                    l = {"l": "fld", "x": l, "f": fn}
                    lt = ft
            ss.append({"s": "set", "l": l, "x": self.expr(lt)})
        for op in ("eq", "ne"):
            ss.append({"s": "print", "ty": BOOL, "x": {"e": "bin", "op": op, "l": {"e": "var", "n": a, "ty": t}, "r": {"e": "var", "n": b, "ty": t}}})
        return ss

    def stmt_let(self):
        t = self.r.choice(INTS + [BOOL, ("arr", self.r.choice([2, 3, 4]), self.r.choice([I32, U8, I64])), REC_P, REC_Q,
                                  ("arr", 2, REC_P), CHAR] + ([FN2] if self.fn_ops else []))
        if t == FN2 and self.r.random() < 0.4:
            # a local lambda: n :: (x: i32, y: i32) -> i32 { .. };  (it cannot capture anything)
            n = self.fresh("g")
            fn = self.op_fn(self.fresh("lam"))
            fn["local"] = True
            self.local_fns.append(fn)
            self.declare(n, FN2, False)
            return {"s": "let", "n": n, "x": {"e": "fnref", "f": fn["name"], "inline": fn}, "ty": FN2, "mut": False, "lambda": True}
        x = self.expr(t)
        n = self.fresh()
        mut = self.r.random() < 0.7
        self.declare(n, t, mut)
        return {"s": "let", "n": n, "x": x, "ty": t, "mut": mut}

    def place(self):
        """a mutable place and its type (only int / bool / whole aggregate leaves)"""
        cands = self.vars_of(lambda vt, m: m)
        if not cands:
            return None
        n, t, _ = self.r.choice(cands)
        l = {"l": "var", "n": n}
        while True:
            if t[0] == "arr" and self.r.random() < 0.8:
                l = {"l": "idx", "a": l, "i": self.index_lit(self.r.randrange(t[1]))}
                t = t[2]
            elif t[0] == "rec" and self.r.random() < 0.8:
                fn, ft = self.r.choice(t[2])
                l = {"l": "fld", "x": l, "f": fn}
                t = ft
            else:
                return l, t

    def stmt_print(self):
        if self.noprint:
            return self.stmt_let()
        t = self.r.choice(INTS + [BOOL, CHAR])
        return {"s": "print", "x": self.expr(t), "ty": t}

    def block(self, n, label="", allow_jump=True):
        self.scopes.append({})
        ss = []
        for _ in range(n):
            if self.budget <= 0:
                break
            if not self.noprint and self.r.random() < 0.06:
                self.budget -= 2
                ss += self.stmt_aggcmp()
                continue
            if not self.noprint and self.r.random() < 0.08:
                self.budget -= 3
                ss += self.stmt_sum()
                continue
            if self.ptr_helpers and not self.noprint and self.r.random() < 0.08:
                self.budget -= 3
                ss += self.r.choice([self.stmt_ptr, self.stmt_ptr, self.stmt_slice, self.stmt_holder, self.stmt_scast, self.stmt_misc])()
                continue
            ss.append(self.stmt(allow_jump))
        self.scopes.pop()
        return {"e": "blk", "label": label, "ss": ss, "tail": NONE}

    def stmt(self, allow_jump=True):
        r = self.r
        self.budget -= 1
        k = r.random()
        if k < 0.2:
            return self.stmt_let()
        if k < 0.4:
            return self.stmt_print()
        if k < 0.43:
            # an aggregate literal that reads the variable it is assigned to (evaluated before the store)
            cands = self.vars_of(lambda vt, m: m and (vt == REC_P or (vt[0] == "arr" and vt[2][0] == "int")))
            if cands:
                n, t, _ = r.choice(cands)
                v = {"e": "var", "n": n, "ty": t}
                if t == REC_P:
                    x = {"e": "rec", "ty": "P", "fs": [
                        {"n": "a", "x": {"e": "cast", "ty": jty(I32), "x": {"e": "fld", "x": v, "f": "b"}}},
                        {"n": "b", "x": {"e": "cast", "ty": jty(U8), "x": {"e": "fld", "x": v, "f": "a"}}}]}
                else:
                    x = {"e": "arr", "elem": t[2], "es": [{"e": "idx", "a": v, "i": self.index_lit(t[1] - 1 - j)} for j in range(t[1])]}
                return {"s": "set", "l": {"l": "var", "n": n}, "x": x}
        if k < 0.55:
            p = self.place()
            if p:
                l, t = p
                if t[0] == "int" and r.random() < 0.4:
                    return {"s": "cset", "op": r.choice(["add", "sub", "mul", "xor"]), "l": l, "x": self.expr(t)}
                return {"s": "set", "l": l, "x": self.expr(t)}
            return self.stmt_print()
        if k < 0.65:
            f = self.block(r.randrange(1, 3)) if r.random() < 0.5 else NONE
            return {"s": "if", "c": self.expr(BOOL), "t": self.block(r.randrange(1, 4)), "f": f}
        if k < 0.78 and len(self.loops) < 2:
            return self.stmt_loop()
        if k < 0.84:
            if self.noprint:
                return self.stmt_let()
            return {"s": "defer", "x": self.stmt_print()}
        if k < 0.9 and allow_jump and self.loops:
            # a conditional jump out of / to the head of an enclosing loop.  Unlabeled only when the
            # innermost loop is meant and no labeled block was opened inside it
            target = r.randrange(max(0, len(self.loops) - 2), len(self.loops))
            lab = self.loops[target]
            innermost = target == len(self.loops) - 1
            if innermost and not self.blocks and (lab == "" or r.random() < 0.5):
                use = ""
            elif lab != "":
                use = lab
            else:
                return self.stmt_print()
            kind = r.choice(["break", "continue"])
            j = {"s": "break", "label": use, "x": NONE} if kind == "break" else {"s": "continue", "label": use}
            return {"s": "if", "c": self.expr(BOOL), "t": {"e": "blk", "label": "", "ss": [j], "tail": NONE}, "f": NONE}
        if k < 0.94 and self.in_fn_ret is not None and allow_jump:
            j = {"s": "return", "x": self.expr(self.in_fn_ret)}
            return {"s": "if", "c": self.expr(BOOL), "t": {"e": "blk", "label": "", "ss": [j], "tail": NONE}, "f": NONE}
        if k < 0.97:
            # a labeled block with a value, left by break or by its tail
            t = r.choice(INTS)
            lab = self.fresh("b")
            self.scopes.append({})
            self.blocks.append(lab)
            ss = [self.stmt_print()]
            if r.random() < 0.7:
                j = {"s": "break", "label": lab, "x": self.expr(t)}
                ss.append({"s": "if", "c": self.expr(BOOL), "t": {"e": "blk", "label": "", "ss": [j], "tail": NONE}, "f": NONE})
            if r.random() < 0.5 and not self.noprint:
                ss.append({"s": "defer", "x": self.stmt_print()})
            tail = self.expr(t)
            self.blocks.pop()
            self.scopes.pop()
            n = self.fresh()
            self.declare(n, t, False)
            return {"s": "let", "n": n, "x": {"e": "blk", "label": lab, "ss": ss, "tail": tail}, "ty": t, "mut": False}
        self.scopes.append({})
        inner = self.stmt_print()
        self.scopes.pop()
        return {"s": "expr", "x": {"e": "blk", "label": "", "ss": [inner], "tail": NONE}}

    def stmt_loop(self):
        r = self.r
        i = self.fresh("i")
        k = r.randrange(1, 5)
        lab = self.fresh("l") if r.random() < 0.5 else ""
        self.scopes.append({})
        self.declare(i, I32, False)       # never assigned by generated statements: the loop must end
        pre = {"s": "let", "n": i, "x": {"e": "int", "ty": jty(I32), "b": [0, 0, 0, 0]}, "ty": I32, "mut": True}
        self.loops.append(lab)
        saved_blocks, self.blocks = self.blocks, []
        self.scopes.append({})
        inc = {"s": "cset", "op": "add", "l": {"l": "var", "n": i}, "x": {"e": "int", "ty": jty(I32), "b": [1, 0, 0, 0]}}
        ss = [inc]
        kind = r.choice(["while", "loop"])
        lim = {"e": "int", "ty": jty(I32), "b": [k, 0, 0, 0]}
        if kind == "loop":
            j = {"s": "break", "label": "", "x": NONE}
            ss.append({"s": "if", "c": {"e": "bin", "op": "gt", "l": {"e": "var", "n": i, "ty": I32}, "r": lim},
                       "t": {"e": "blk", "label": "", "ss": [j], "tail": NONE}, "f": NONE})
        for _ in range(r.randrange(1, 4)):
            if self.budget > 0:
                ss.append(self.stmt())
        self.scopes.pop()
        self.blocks = saved_blocks
        self.loops.pop()
        body = {"e": "blk", "label": "", "ss": ss, "tail": NONE}
        if kind == "while":
            loop = {"s": "while", "label": lab,
                    "c": {"e": "bin", "op": "lt", "l": {"e": "var", "n": i, "ty": I32}, "r": lim}, "body": body}
        else:
            loop = {"s": "loop", "label": lab, "c": NONE, "body": body}
        self.scopes.pop()
        return {"s": "expr", "x": {"e": "blk", "label": "", "ss": [pre, loop], "tail": NONE}}

    # --------------------------------------------------------------- programs
    def global_consts(self):
        """0-5 global constants: literals, aggregates of literals, comptime blocks over earlier ones"""
        out = []
        for _ in range(self.r.randrange(0, 6)):
            t = self.r.choice([I32, I32, U8, I64, BOOL, ("arr", 3, I32), REC_P])
            n = self.fresh("K")
            self.scopes = [dict(self.globals)]
            earlier = [g for g, (gt, _) in self.globals.items() if gt == t and t[0] == "int"]
            if earlier and self.r.random() < 0.4:
                x = {"e": "blk", "label": "", "ss": [], "comptime": True,
                     "tail": {"e": "bin", "op": self.r.choice(["add", "mul", "xor"]), "l": {"e": "var", "n": self.r.choice(earlier), "ty": t}, "r": self.lit(t)}}
            elif t[0] == "arr":
                x = {"e": "arr", "elem": t[2], "es": [self.lit(t[2]) for _ in range(t[1])]}
            elif t[0] == "rec":
                # a struct literal is not const by itself: the global is a comptime block
                x = {"e": "blk", "label": "", "ss": [], "comptime": True,
                     "tail": {"e": "rec", "ty": t[1], "fs": [{"n": fn, "x": self.lit(ft)} for fn, ft in t[2]]}}
            else:
                x = self.lit(t)
            def plain(e):          # `i32.(5)` is a cast expression and not const; a bare literal is
                if isinstance(e, dict):
                    if e.get("e") == "int":
                        e["plain"] = True
                    for v in e.values():
                        plain(v)
                elif isinstance(e, list):
                    for v in e:
                        plain(v)
            plain(x)
            self.globals[n] = (t, False)
            out.append({"n": n, "x": x, "ty": t})
        return out

    def function(self, name, ptys, ret, nstmts):
        self.scopes = [dict(self.globals)]
        params = []
        for pt in ptys:
            pn = self.fresh("p")
            params.append({"n": pn, "ty": pt})
            self.declare(pn, pt, False)
        self.in_fn_ret = ret
        self.loops, self.blocks = [], []
        self.scopes.append({})
        ss = []
        self.budget = nstmts
        while self.budget > 0:
            if not self.noprint and self.r.random() < 0.08:
                self.budget -= 2
                ss += self.stmt_aggcmp()
                continue
            if not self.noprint and self.r.random() < 0.12:
                self.budget -= 3
                ss += self.stmt_sum()
                continue
            if self.ptr_helpers and not self.noprint and self.r.random() < 0.12:
                self.budget -= 3
                ss += self.r.choice([self.stmt_ptr, self.stmt_ptr, self.stmt_slice, self.stmt_holder, self.stmt_scast, self.stmt_misc])()
                continue
            ss.append(self.stmt())
        tail = self.expr(ret) if ret is not None else NONE
        self.scopes.pop()
        self.in_fn_ret = None
        return {"name": name, "params": params, "ret": ret, "body": {"e": "blk", "label": "", "ss": ss, "tail": tail}}

    def program(self):
        fns = []
        globs = self.global_consts()
        self.noprint = True
        for k in range(self.r.randrange(1, 4)):
            name = "f%d" % k
            ptys = [self.r.choice(INTS + [("arr", 3, I32), REC_P]) for _ in range(self.r.randrange(0, 3))]
            ret = self.r.choice(INTS)
            fn = self.function(name, ptys, ret, self.r.randrange(1, 5))
            fns.append(fn)
            self.fns.append((name, ptys, ret))
        self.noprint = False
        fns.append(self.try_helper())
        fns.append(self.try_eu_helper())
        self.has_try = True
        fns += self.ptr_helper_fns() + self.slice_helper_fns() + self.fn_value_fns() + self.vararg_fns() + self.holder_fns() + self.misc_helper_fns()
        self.fn_ops = ["op_a", "op_b"]
        self.local_fns = []
        self.ptr_helpers = True
        main = self.function("main", [], I32, self.size)
        if self.want_fault:
            # one out-of-range access at the end of main, after everything else was printed
            arr = {"e": "arr", "elem": I32, "es": [self.lit(I32) for _ in range(3)]}
            n, iv = self.fresh(), self.fresh()
            main["body"]["ss"] += [
                {"s": "let", "n": n, "x": arr, "ty": ("arr", 3, I32), "mut": True},
                {"s": "let", "n": iv, "x": self.index_lit(3 + self.r.randrange(3)), "ty": ("int", 8, False), "mut": False, "usize": True},
                {"s": "print", "x": {"e": "idx", "a": {"e": "var", "n": n, "ty": ("arr", 3, I32)},
                                     "i": {"e": "var", "n": iv, "ty": ("int", 8, False)}}, "ty": I32},
                {"s": "print", "x": self.lit(I32), "ty": I32}]
        fns.append(main)
        return {"fns": fns + self.local_fns, "globs": globs}


# -------------------------------------------------------------------- rendering
OPS = {"add": "+", "sub": "-", "mul": "*", "and": "&", "or": "|", "xor": "~", "shl": "<<", "shr": ">>",
       "lt": "<", "le": "<=", "gt": ">", "ge": ">=", "eq": "==", "ne": "!=", "land": "&&", "lor": "||"}

PRELUDE_TYPES = ("P :: struct { a: i32, b: u8 };\nQ :: struct { p: P, k: i64, f: bool };\n"
                 "E :: enum { A: i32, B: u8, C, D: P };\nDI :: distinct i32;\n"
                 "H :: struct { k: i32, p: ^mut P, o: ?^mut i32 };\n"
                 "PR :: struct { b: u8, a: i32 };\nPW :: struct { a: i64, b: u16 };\n"
                 "R2 :: struct { x: i32, y: i32 };\nR2s :: struct { y: i32, x: i32 };\n"
                 "Q2 :: struct { r: R2, k: i64 };\nQ2s :: struct { k: i32, r: R2s };\n"
                 "Z0 :: struct {};\nDZ :: struct { a: u8, o: ?u8, k: i32 };\n"
                 # a value becomes an error union by implicit conversion (here: at a return)
                 "eu_bi_ok :: (v: i32) -> bool!i32 { v }\neu_bi_err :: (e: bool) -> bool!i32 { e }\n"
                 "eu_pl_ok :: (v: i64) -> P!i64 { v }\neu_pl_err :: (e: P) -> P!i64 { e }\n")


class Render:
    def __init__(self):
        self.t = 0

    def ty_of_jty(self, j):
        return ("i" if j["s"] else "u") + str(8 * j["w"])

    def expr(self, e):
        k = e["e"]
        if k == "int" and e.get("char"):
            return "'%s'" % chr(e["b"][0])
        if k == "fnref":
            if e.get("inline"):
                f = e["inline"]
                return self.fn_plain(f, ", ".join("%s: %s" % (p["n"], tyname(self.tup(p["ty"]))) for p in f["params"])).split(" :: ", 1)[1]
            return e.get("qual", "") + e["f"]
        if k == "callv":
            return "%s(%s)" % (self.expr(e["x"]), ", ".join(self.expr(a) for a in e["args"]))
        if k == "int":
            v = int.from_bytes(bytes(e["b"]), "little")
            if e.get("plain"):
                return str(v)          # a bare literal: stays const (a cast expression is not)
            if e.get("tyv"):
                return "%s.(%d)" % (e["tyv"], v)
            if e.get("usize"):
                return "usize.(%d)" % v
            return "%s.(%d)" % (self.ty_of_jty(e["ty"]), v)
        if k == "bool":
            return "true" if e["v"] else "false"
        if k == "var":
            return e["n"]
        if k == "bin":
            return "(%s %s %s)" % (self.expr(e["l"]), OPS[e["op"]], self.expr(e["r"]))
        if k == "un":
            return "(%s%s)" % ({"neg": "-", "bnot": "~", "not": "!"}[e["op"]], self.expr(e["x"]))
        if k == "cast":
            if e.get("tychar"):
                return "char.(%s)" % self.expr(e["x"])
            if e.get("tytext"):
                return "%s.(%s)" % (e["tytext"], self.expr(e["x"]))
            return "%s.(%s)" % (e.get("tyv") or self.ty_of_jty(e["ty"]), self.expr(e["x"]))
        if k == "type":
            return e.get("text") or self.ty_of_jty(e["ty"])
        if k == "call":
            cargs, args = e.get("cargs", []), e["args"]
            if e.get("order"):          # declared parameter order: ("c", i) comptime / ("p", i) run-time
                seq = [cargs[i] if kind == "c" else args[i] for kind, i in e["order"]]
            else:
                seq = cargs + args
            return "%s%s(%s)" % (e.get("qual", ""), e["f"], ", ".join(x for x in (self.expr(a) for a in seq) if x != ""))
        if k == "idx":
            return "%s[%s]" % (self.expr(e["a"]), self.expr(e["i"]))
        if k == "fld":
            return "%s.%s" % (self.expr(e["x"]), e["f"])
        if k == "arr" and e.get("varargs"):
            return ", ".join(self.expr(x) for x in e["es"])       # the arguments given for a vararg parameter
        if k == "arr":
            return "%s.[%s]" % (tyname(tuple(e["elem"])), ", ".join(self.expr(x) for x in e["es"]))
        if k == "rec":
            return "%s.{ %s }" % (e["ty"], ", ".join("%s = %s" % (f["n"], self.expr(f["x"])) for f in e["fs"]))
        if k == "ifx":
            return "(if %s %s else %s)" % (self.expr(e["c"]), self.expr(e["t"]), self.expr(e["f"]))
        if k == "blk":
            return ("comptime " if e.get("comptime") else "") + self.block(e, 1)
        if k == "none":
            return ""
        if k == "variant":
            t = self.tup(e["sty"])
            if t[0] == "opt":
                return "%s.(%s)" % (tyname(t), self.expr(e["x"]) if e["k"] == 1 else "nil")
            if t == EU_EL:
                # E!i64: the value is made by a typed local whose initialiser is the payload itself
                # (for the error: the enum VARIANT, not yet converted to E)
                self.t += 1
                return "{ eu_%d : E!i64 = %s; eu_%d }" % (self.t, self.expr(e["x"]), self.t)
            if t[0] == "eu":
                return "eu_%s_%s(%s)" % ("bi" if t == EU_BI else "pl", "ok" if e["k"] == 1 else "err", self.expr(e["x"]))
            vn, pt = t[2][e["k"] - 1]
            if e.get("raw"):        # the variant itself, not yet converted to its enum
                return "%s.%s%s" % (t[1], vn, ".(%s)" % self.expr(e["x"]) if pt is not None else "")
            return "%s.(%s.%s%s)" % (t[1], t[1], vn, ".(%s)" % self.expr(e["x"]) if pt is not None else "")
        if k in ("isvar", "unwrap"):
            return "%s(%s, %s)" % ("#is_variant" if k == "isvar" else "#unwrap", self.expr(e["x"]), self.vty(e["sty"], e["k"]))
        if k == "try":
            return "%s.try" % self.expr(e["x"])
        if k == "scast":
            return "%s.(%s)" % (e["tytext"], self.expr(e["x"]))
        if k == "slice":
            return self.place(e["l"])                # arrays fit into slice types by themselves
        if k == "len":
            return "%s.len" % self.expr(e["x"])
        if k == "toarr":
            return "[%d]i32.(%s)" % (e["n"], self.expr(e["x"]))
        if k == "ref":
            return "%s%s" % ("^mut " if e["m"] else "^", self.place(e["l"]))
        if k == "deref":
            return self.expr(e["x"]) + ("" if e.get("auto") else "^")
        raise ValueError(k)

    def vty(self, t, k):
        t = self.tup(t)
        if t[0] == "opt":
            return tyname(t[1]) if k == 1 else "nil"
        if t[0] == "eu":
            return tyname(t[2]) if k == 1 else tyname(t[1])
        return "%s.%s" % (t[1], t[2][k - 1][0])

    def place(self, l):
        if l["l"] == "var":
            return l["n"]
        if l["l"] == "idx":
            return "%s[%s]" % (self.place(l["a"]), self.expr(l["i"]))
        if l["l"] == "deref":
            return self.expr(l["p"]) + ("" if l.get("auto") else "^")
        return "%s.%s" % (self.place(l["x"]), l["f"])

    def block(self, b, ind):
        pad = "    " * ind
        lab = "`%s: " % b["label"] if b["label"] else ""
        lines = [lab + "{"]
        for s in b["ss"]:
            lines += [pad + x for x in self.stmt(s)]
        if b["tail"]["e"] != "none":
            lines.append(pad + self.expr(b["tail"]))
        lines.append("    " * (ind - 1) + "}")
        return "\n".join(lines)

    def indent(self, text):
        return text.replace("\n", "\n    ")

    def stmt(self, s):
        k = s["s"]
        if k == "let" and s.get("lambda"):
            return ["%s :: %s;" % (s["n"], self.indent(self.expr(s["x"])))]
        if k == "let":
            t = tuple(s["ty"]) if isinstance(s["ty"], (list, tuple)) else s["ty"]
            if s.get("noinit"):
                return ["%s : %s;" % (s["n"], tyname(self.tup(t)))]
            if s.get("noann"):
                return ["%s :%s %s;" % (s["n"], "=" if s["mut"] else ":", self.indent(self.expr(s["x"])))]
            tn = "usize" if s.get("usize") else (t if isinstance(t, str) else tyname(self.tup(t)))
            return ["%s : %s %s %s;" % (s["n"], tn, "=" if s["mut"] else ":", self.indent(self.expr(s["x"])))]
        if k == "set":
            return ["%s = %s;" % (self.place(s["l"]), self.indent(self.expr(s["x"])))]
        if k == "cset":
            return ["%s %s= %s;" % (self.place(s["l"]), OPS[s["op"]], self.indent(self.expr(s["x"])))]
        if k == "print":
            self.t += 1
            t = self.tup(s["ty"])
            w = 1 if t[0] in ("bool", "char") else t[1]
            tn = "usize" if s.get("usize") else tyname(t)
            return ["{ t_%d : %s = %s; emit(^t_%d, %d); nl(); };" % (self.t, tn, self.indent(self.expr(s["x"])), self.t, w)]
        if k == "expr":
            if s.get("flat"):
                out = []
                for x in s["x"]["ss"]:
                    out += self.stmt(x)
                return out
            return [self.indent(self.expr(s["x"])) + ";"]
        if k == "while":
            lab = "`%s: " % s["label"] if s["label"] else ""
            return ["%swhile %s %s;" % (lab, self.expr(s["c"]), self.indent(self.expr(s["body"])))]
        if k == "loop":
            lab = "`%s: " % s["label"] if s["label"] else ""
            return ["%sloop %s;" % (lab, self.indent(self.expr(s["body"])))]
        if k == "if":
            txt = "if %s %s" % (self.expr(s["c"]), self.indent(self.expr(s["t"])))
            if s["f"]["e"] != "none":
                txt += " else %s" % self.indent(self.expr(s["f"]))
            return [txt + ";"]
        if k == "switch":
            t = self.tup(s["sty"])
            lines = ["switch %s in %s {" % (s["bind"], self.expr(s["x"]))]
            for a in s["arms"]:
                lines.append("    %s => %s," % (self.vty(t, a["k"]), self.indent(self.indent(self.expr(a["body"])))))
            if s["dflt"]["e"] != "none":
                lines.append("    _ => %s," % self.indent(self.indent(self.expr(s["dflt"]))))
            lines.append("};")
            return lines
        if k == "typedecl":
            return [s["text"]]
        if k == "break":
            lab = " `%s" % s["label"] if s["label"] else ""
            val = " " + self.expr(s["x"]) if s["x"]["e"] != "none" else ""
            return ["break%s%s;" % (lab, val)]
        if k == "continue":
            return ["continue%s;" % (" `%s" % s["label"] if s["label"] else "")]
        if k == "return":
            return ["return %s;" % self.expr(s["x"])]
        if k == "defer":
            inner = self.stmt(s["x"])
            if s["x"]["s"] in ("set", "cset"):          # `defer` takes an expression: a block
                return ["defer { %s };" % " ".join(inner)]
            return ["defer " + inner[0]] + inner[1:]
        raise ValueError(k)

    def tup(self, t):
        if isinstance(t, list):
            return tuple(self.tup(x) for x in t)
        return t

    def fn(self, f):
        cps = ["comptime %s: %s" % (p["n"], p["kind"]) for p in f.get("cparams", [])]
        rps = ["%s: %s" % (p["n"], p["ty"] if isinstance(p["ty"], str) else tyname(self.tup(p["ty"]))) for p in f["params"]]
        if f.get("order"):
            ps = ", ".join(cps[i] if kind == "c" else rps[i] for kind, i in f["order"])
        else:
            ps = ", ".join(cps + rps)
        if isinstance(f.get("ret"), str):
            return "%s :: (%s) -> %s %s" % (f["name"], ps, f["ret"], self.block(f["body"], 1))
        return self.fn_plain(f, ps)

    def fn_plain(self, f, ps):
        ret = " -> %s" % tyname(self.tup(f["ret"])) if f["ret"] is not None else ""
        return "%s :: (%s)%s %s" % (f["name"], ps, ret, self.block(f["body"], 1))

    def glob(self, g):
        return "%s : %s : %s;" % (g["n"], tyname(self.tup(g["ty"])), self.expr(g["x"]))

    def program(self, p):
        return PRELUDE_TYPES + "\n".join(self.glob(g) for g in p.get("globs", [])) + "\n" + \
            "\n".join(self.fn(f) for f in p["fns"] if not f.get("local")) + "\n"


def strip(x):
    """the abstract syntax without the renderer's annotations (types of lets / prints etc.)"""
    if isinstance(x, dict):
        return {k: strip(v) for k, v in x.items() if k not in ("ty", "mut", "flat", "elem", "usize", "ret", "kind", "text", "plain", "sty", "order", "auto", "m", "char", "tychar", "inline", "lambda", "local", "comptime", "qual", "file", "tytext", "varargs", "text", "raw", "noann", "noinit")
                or (k == "ty" and x.get("e") in ("int", "cast", "rec", "type"))}
    if isinstance(x, (list, tuple)):
        return [strip(v) for v in x]
    return x
