#!/usr/bin/env python3
"""seed_store.py <ID> <src_out_dir> <name> <json-meta-extra> : copy a confirmed seeded change into /verif/seeded/<name>/"""
import json, os, shutil, sys
pid, src, name, extra = sys.argv[1], sys.argv[2], sys.argv[3], json.loads(sys.argv[4])
dst = os.path.join("/verif/seeded", name)
os.makedirs(dst, exist_ok=True)
for f in os.listdir(src):
    p = os.path.join(src, f)
    if os.path.isfile(p) and os.path.getsize(p) < 200000:
        shutil.copy(p, os.path.join(dst, f))
meta = {"property": pid}
meta.update(extra)
json.dump(meta, open(os.path.join(dst, "meta.json"), "w"), indent=1)
print("stored", dst, os.listdir(dst))
