#!/usr/bin/env python3
"""Regenerates /verif/MANIFEST.json from the table below (single source of truth)."""
import json
import os

VERIF = os.path.dirname(os.path.dirname(os.path.abspath(__file__)))

ALL = ["C%02d" % i for i in range(1, 29)]

# pid -> (engine, category, text, note, technique, design_ref)
CHECKS = {
    "C01": dict(
        engine="BV/CapySem",
        category="model_checking",
        text="CapySem.tla is a definitional interpreter, written in TLA+ over JSON abstract syntax, "
             "for the supported fragment: machine integers of several widths with wrapping "
             "arithmetic, shifts and casts (BV.tla), bool with short-circuit operators, arrays and "
             "nested structs with copy semantics, char, sum values (?T, enums, error unions) with "
             "switch / #unwrap / #is_variant / .try (nil and errors propagate), slices (reference "
             "semantics, .len, bounds, copying back), function values (globals and local lambdas "
             "called through variables and parameters), vararg parameters (also empty and in the "
             "middle of the parameter list), global constants, pointers (^ / ^mut to variables, fields and elements; stores and "
             "reads through them with and without auto-dereference; pointer parameters that write "
             "into the frames of callers, also several frames down), functions, if / while / loop, "
             "labeled blocks "
             "with values, break / continue with and without labels, early return, defer (LIFO on "
             "every exit), index faults (message, status 1, nothing afterwards), exit status = low "
             "byte of main's result. tools/capygen.py generates seeded, well-typed, determinate "
             "programs in that fragment; each is rendered to Capy, compiled by the real pipeline, "
             "linked and executed, and TLC validates every record (program, accepted, printed "
             "bytes, how it ended, status) against the interpreter (TraceSem.tla). A corrupted "
             "output byte or status is rejected (binding demonstration in DESIGN.md).",
        note="quick: 360 programs + 40 ending in an out-of-range index; thorough: 5 000 + 500. "
             "Not in the fragment yet: pointers stored inside aggregates or returned from "
             "functions, floats (C08), strings. Programs "
             "whose evaluation exceeds the fuel of 400 loop iterations / calls are not judged. "
             "Trusted: TLC, the generator's determinacy discipline (pure functions inside "
             "expressions, literal shift amounts, no division), the renderer, gcc as linker.",
        technique="TLA+ definitional interpreter as oracle + trace validation of executed programs",
        ref="DESIGN.md section 4 C01"),
    "C02": dict(
        engine="Layout/Memory",
        category="model_checking",
        text="Memory.tla models one object S = { x: X, g: [8]u8 } in a byte memory (the guard lies "
             "directly behind x) and one store into x - or into one element of x: [2]T - in each "
             "way the language offers: copy of a variable, literal / conversion (variant -> enum, "
             "payload -> optional, nil, payload / error -> error union), payload or variant "
             "variable, argument + return by value, through ^mut, struct cast (structural twin; "
             "member-wise converting from wider members in another order; same members in the "
             "reverse order), array element 0 / 1, a local between guard locals, S built by a "
             "literal in reverse member order, compound assignment with a same-width / wider "
             "right-hand side. Sizes, offsets, strides and tag positions are "
             "Layout.tla's (validated against the code generator by C17). The frame condition "
             "(no byte outside the target changes) is an action property checked by TLC on every "
             "behaviour; each behaviour's final image (defined bytes of the new value inside the "
             "target, -1 = padding / inactive payload = unconstrained, everything else as before) "
             "is replayed: the real program builds S, performs the store, dumps S's bytes.",
        note="quick: 33 value types + all-bytes structs of 18 sizes in 1..64 (1944 behaviours); "
             "thorough: every size 1..64. No pointers / strings inside the stored types (their "
             "bytes are not known to the spec). Trusted: TLC, Layout.tla's layout operators "
             "(C17), the renderer in tools/props/c02.py, gcc as linker.",
        technique="TLA+ memory model (TLC action property + enumeration) + spec-to-implementation replay",
        ref="DESIGN.md section 4 C02"),
    "C03": dict(
        engine="Defer",
        category="model_checking",
        text="Defer.tla's state graph enumerates every skeleton program in the bound (nested "
             "blocks / labeled blocks / while loops / if-blocks, defers, break / continue / return / "
             ".try with and without labels, conditional on the loop iteration); its reference "
             "semantics (pending-defer list per open block, run in reverse when the block is left) "
             "gives the prescribed output and is itself checked (run-at-most-reached, LIFO, "
             "top-level defers exactly once). Every skeleton is rendered to Capy, compiled by the "
             "real pipeline, executed, and its stdout compared with the prescription.",
        note="quick: <=7 tokens, depth <=3, <=2 defers per block, <=2 jumps (33k skeletons); "
             "thorough: <=8 tokens, depth <=4, <=3 defers per block. Loops run two iterations. "
             "Trusted: TLC, the 60-line renderer in tools/props/c03.py, gcc as linker.",
        technique="TLA+ reference semantics (TLC enumeration) + spec-to-implementation replay",
        ref="DESIGN.md section 4 C03"),
    "C04": dict(
        engine="Layout/Memory/Comptime",
        category="model_checking",
        text="Comptime.tla is a two-phase machine: while compiling, the block is evaluated exactly "
             "once (its side effect goes to the compiler's output, its value becomes a constant); "
             "while running, the program observes that constant. Values and byte images are "
             "Memory.tla's (integers, floats, bool, structs with padding, arrays, enums, "
             "optionals, error unions, all-bytes structs) plus char, str (pointee bytes) and "
             "type. TLC checks `the comptime value is what the run-time twin computes` and `the "
             "effect happens once, at compile time` on every behaviour and emits the images. "
             "Every behaviour is replayed with the block used as a local, as a global, nested in "
             "another comptime block, computing through a function, with a putchar side effect "
             "(the harness records what the compiler itself printed), and as its run-time twin.",
        note="quick: 44 types x 2 values x 6 forms (510 behaviours). Known finding F04 (str). "
             "Trusted: TLC, Layout.tla's layout operators (C17), the renderer in "
             "tools/props/c04.py, gcc as linker.",
        technique="TLA+ two-phase machine (TLC invariants + enumeration) + spec-to-implementation replay",
        ref="DESIGN.md section 4 C04"),
    "C05": dict(
        engine="Scopes",
        category="model_checking",
        text="Scopes.tla's state graph enumerates every well-nested event sequence in the bound "
             "(blocks, definitions, references, two-arm switches with an argument, lambdas with / "
             "without a parameter, comptime blocks) over the pool {a (also a global), b (also a "
             "parameter), u8 (also a built-in type)}; its static semantics prescribes the binding "
             "of every reference (innermost frame, then parameter of the enclosing lambda, then "
             "global, then built-in, else undefined) and is itself checked (scopes end, "
             "innermost). Every program is lowered by the real hir::index / hir::lower and the "
             "resolution recorded in Bodies is compared reference by reference.",
        note="quick: <=5 events (15k programs), thorough: <=7 events (944k programs), depth <=3, "
             "<=2 references per program. Front end only (what hir_ty / codegen do with the "
             "resolution is covered by the executed-program checks). Trusted: TLC, the renderer "
             "in tools/props/c05.py, the harness' walk over Bodies.",
        technique="TLA+ static semantics (TLC enumeration) + spec-to-implementation replay",
        ref="DESIGN.md section 4 C05"),
    "C06": dict(
        engine="Pipeline",
        category="model_checking",
        text="Pipeline.tla is the stage machine of one compilation; the events panic, abort / "
             "signal, time-out, Cranelift error, link failure, a diagnostic that cannot be "
             "rendered and exit-without-diagnostics exist in the trace vocabulary but no action "
             "enables them, so a recorded compilation containing one is not a behaviour of the "
             "specification. Every input is compiled in its own process (per-stage catch_unwind, "
             "wall-clock limit, every diagnostic rendered in both colour modes) and its stage "
             "trace is validated by TracePipeline.tla. Inputs: every corpus program (examples, "
             "core users, sources embedded in the hir_ty / codegen tests), their token- and "
             "byte-level mutants, token soups, random Unicode, depth-200 nesting, a 64 KiB input, "
             "and the witnesses of every recorded finding and repaired defect (tools/c06_inputs).",
        note="quick: 2 838 inputs; thorough: 41 000 (corpus, token / byte mutants of the corpus and of "
             "generated programs, token soups, Unicode, nesting, witnesses, snippet geometry). A time-out is re-run alone with four times "
             "the limit before it counts. 22 known findings (panic sites of the front end / type "
             "checker on malformed input, three back-end failures on accepted programs), each "
             "identified by event + innermost function of the code under test + normalised "
             "message, each with a witness input; a panic at any other site, any signal, hang, "
             "verifier / link error is a violation. The spec is a small stage machine and the "
             "exploration is generator-driven (DESIGN.md section 7). Trusted: TLC, the harness' "
             "staging of main.rs through the library API.",
        technique="TLA+ stage machine (forbidden events) + trace validation of recorded compilations",
        ref="DESIGN.md section 4 C06"),
    "C07": dict(
        engine="Pipeline",
        category="model_checking",
        text="Pipeline.tla is the stage machine of one compilation (front end -> inference -> "
             "diagnostics | comptime -> no-entry | object -> linked); the gate is the guard of its "
             "actions (Report needs an error, Comptime needs none; an error attached to an "
             "expression flags something unsafe; nothing is flagged without an error) plus the "
             "Gate invariant, model-checked by TLC. Every compilation of a corpus program or one "
             "of its single-token mutants (own process, unsafe tracking on, linking requested) "
             "is recorded as a stage trace and validated by TracePipeline.tla: a record is "
             "accepted only as a behaviour of the machine that ends in a terminal state "
             "satisfying the gate. Records in which the compiler reached a verdict are judged "
             "here (crashes before a verdict are C06's).",
        note="quick: 1 003 corpus programs + 1 200 single-token mutants + 240 generated programs "
             "with one breaking change (mutability / type / scope / arity / token) + the regression inputs "
             "in tools/c06_inputs; thorough: 30 000 mutants. The spec is a small stage machine; "
             "the exploration is generator-driven (said in DESIGN.md section 7). Known findings "
             "F07a-c. Trusted: TLC, the harness' staging of crates/capy's main.rs through the "
             "library API, gcc as linker.",
        technique="TLA+ stage machine (TLC) + trace validation of recorded compilations",
        ref="DESIGN.md section 4 C07"),
    "C08": dict(
        engine="BV/Arith",
        category="model_checking",
        text="Arith.tla (over BV.tla: machine integers as byte sequences, because TLC's integers "
             "are 32-bit) defines every operator and numeric cast of the property: wrapping + - *, "
             "division declaratively (a = q*b + r in double width, |r| < |b|, sign of the "
             "dividend), bitwise ops, shifts and comparisons by the operand type's signedness, "
             "int->int casts by the source's signedness, int->float as round-to-nearest-even of "
             "the full value, float->int as truncation when it fits, float->float, and float "
             "arithmetic on dyadic operands whose exact result is representable. ArithMC.tla's "
             "state graph enumerates the boundary domain; every case is compiled by the real "
             "compiler (operands built from bytes at run time), executed at run time and inside "
             "comptime, and TLC validates each printed result against Arith.tla (TraceArith.tla). "
             "Seeded random operands go the same way.",
        note="quick: 27 538 boundary cases (second operands from a 7-value subset) + 3 000 random, "
             "every 5th also at comptime; thorough: all 16x16 boundary pairs, 40 000 random, all at "
             "comptime. Widths 8..128, isize/usize, f32/f64. Results that the property leaves open "
             "(x/0, MIN/-1, float out of the target's range, NaN/inf, the sign of a float zero) "
             "are accepted whatever they are. i128 division and comptime blocks of type i128 do "
             "not compile (reported under C06/C07), so they are not evaluated. Known findings "
             "F08d, F08e. Trusted: TLC, the 120-line renderer in tools/props/c08.py, gcc as linker.",
        technique="TLA+ operator semantics (TLC enumeration) + trace validation of executed results",
        ref="DESIGN.md section 4 C08"),
    "C09": dict(
        engine="BV/Literals",
        category="model_checking",
        text="Literals.tla defines the value of every integer spelling (Horner's rule on 16-byte "
             "values; decimal with _ separators and e-exponents, hex, binary), the fits relation "
             "per integer type, the stored bytes, the escape table of char / string literals and "
             "the value of decimal float spellings whose nearest float is determined exactly "
             "(integers, dyadic fractions). LiteralsMC.tla's state graph enumerates boundary "
             "values (MAX-1, MAX, MAX+1 of every integer type, 2^31, 2^32, 2^63, 2^64-1, powers of "
             "ten) x spellings x use sites (annotated, arithmetic with a typed operand, argument, "
             "unannotated local, unannotated global) x the 12 integer types, every escape letter, "
             "strings over a component pool; TLC checks that every generated spelling denotes the "
             "value it was made from. Each case goes to the real front end (accepted iff it fits) "
             "and, when accepted, is compiled and run; TLC validates every observation "
             "(TraceLiterals.tla). Unannotated literals are observed as `any` with their run-time "
             "size and signedness, so their value is judged without fixing their type.",
        note="11 628 cases quick (typed sites: annotated mutable / immutable local, annotated global, "
             "function result, struct member, array element, assignment, arithmetic, argument), "
             "strings up to 3 components thorough. Unannotated literals may be "
             "rejected (the property only demands their value if accepted). Float literals whose "
             "decimal value is not a dyadic rational (0.1) are not constrained by the spec. "
             "Trusted: TLC, the renderer in tools/props/c09.py, meta_type_to_u32's size/sign bits "
             "for the untyped sites.",
        technique="TLA+ literal semantics (TLC enumeration) + trace validation of acceptance and stored bytes",
        ref="DESIGN.md section 4 C09"),
    "C10": dict(
        engine="Bounds",
        category="model_checking",
        text="Bounds.tla is a small machine - print A; the access; print the memory (guard | "
             "elements | guard); print B - over every container kind (array, slice, pointer to "
             "array, pointer to pointer to array, pointer to slice, nested array outer / inner "
             "index) x element kind (i32, struct) x access (read, write, +=, ^mut of the element) "
             "x length x index 0..len+4 (run-time and literal), and over every sum kind (enum, "
             "optional, nullable pointer, error union) x current variant x requested variant x "
             "{#unwrap, one-argument #unwrap, #is_variant}. TLC checks on its state graph that an "
             "access changes at most the addressed element and never a guard, and that a fault is "
             "the last thing that happens with the memory untouched, and emits per behaviour the "
             "prescribed output tokens and exit status (or the static rejection of an "
             "out-of-range literal index of a fixed-size array). Every behaviour is replayed as a "
             "real program: front end for acceptance, executable for stdout / status; faulting "
             "behaviours get one executable each.",
        note="quick: lengths {1,3} (1 614 behaviours, 734 faulting); thorough: lengths {1,5}. The "
             "memory dump is decoded with the struct layout that C17 validates. Trusted: TLC, the "
             "renderer / decoder in tools/props/c10.py, gcc as linker.",
        technique="TLA+ state machine (TLC invariants + enumeration) + spec-to-implementation replay",
        ref="DESIGN.md section 4 C10"),
    "C11": dict(
        engine="SwitchCheck",
        category="model_checking",
        text="SwitchCheck.tla states the static rule (every arm names a variant of the scrutinee's "
             "type, none twice, all named or a default) and the dispatch rule (the arm naming the "
             "current variant runs with the argument bound to its payload, else the default arm "
             "with the whole value) over sum type shapes (enums of 1..MaxEnum variants with void / "
             "i32 / u8 / struct / ^i32 payloads, automatic and custom discriminants incl. 0, 200, "
             "255, counted up to 255 and past it (invalid declaration); ?i32; ?^i32; str!i32; "
             "str!^i32; each also behind a distinct and as the payload of a variant-typed "
             "scrutinee (not a sum type)) x every arm list up to MaxArms over own variants and a "
             "foreign one (for optionals: a type that is nil underneath) x default x spelling "
             "(shorthand, fully qualified, mixed) x form (statement; value whose first arm leaves "
             "the function). TLC checks that exactly one arm is responsible for every variant "
             "of an accepted switch and emits verdict + dispatch table. Every switch is one "
             "function given to the real front end (verdict); accepted ones are executed on every "
             "run-time variant and the arm letter + payload bytes (default: which variant "
             "#is_variant reports for the bound value) compared.",
        note="quick: MaxEnum 3, MaxArms 4 (52 112 switches, 1 781 accepted and run on all their "
             "variants); thorough: MaxEnum 4, MaxArms 5. Default arm always last and single. "
             "Trusted: TLC, the renderer in tools/props/c11.py, gcc as linker.",
        technique="TLA+ static + dispatch rules (TLC enumeration) + spec-to-implementation replay",
        ref="DESIGN.md section 4 C11"),
    "C12": dict(
        engine="Ty/TyRelLaws",
        category="model_checking",
        text="TLC generates the type universe (Ty.tla: every primitive, weak {int}/{uint}/{float}, "
             "nil, void, nominal shapes over a small uid pool, one constructor level; universe 2: "
             "constructors over selected depth-1 types). The harness instantiates every term as a "
             "real Intern<Ty> and evaluates can_fit_into, can_cast_to, weak replaceability and max "
             "(both orders) on every ordered pair; TLC validates every record against the laws of "
             "TyRelLaws.tla (reflexive, fit => cast, weak => fit, max accepts both, max symmetric) "
             "and asserts that the table is the whole U x U.",
        note="quick: universe 1 (150 types, 22 500 pairs); thorough adds universe 2. The laws are "
             "checked on what the code answers, not on a transcription of it. Trusted: TLC, the "
             "harness' term -> Ty construction. Known finding F12-type-of-zero-sized.",
        technique="TLA+ law checking (TLC) over the exhaustively recorded relation table",
        ref="DESIGN.md section 4 C12"),
    "C13": dict(
        engine="Ty/TyRelLaws/NominalProg",
        category="model_checking",
        text="(1) Relation level: same recorded table as C12; TLC checks the nominal-typing laws of "
             "TyRelLaws.tla: a distinct, enum-variant or named-struct source is never implicitly "
             "accepted by a different nominal type nor by its own underlying type (except variant "
             "-> own enum), and casts between a distinct and its underlying type are accepted in "
             "both directions. (2) Program level: NominalProg.tla enumerates source kind (two "
             "distincts of i32, a distinct of a distinct, a named struct, a payload and a "
             "payload-less variant, the underlying i32, an untyped literal) x expected type (the "
             "distincts, two structurally identical structs, i32, two enums with the same "
             "variants) x position (annotation, argument, return, assignment, binary operand), "
             "checks the nominal law on the rule and emits the verdict; every case is one function "
             "checked by the real front end. (3) Casts distinct <-> underlying (and distinct of "
             "distinct) are executed and must keep the bytes.",
        note="Whether a plain i32 is accepted where a distinct of i32 is expected is not stated by "
             "the property (the language accepts it): those cases are enumerated but not judged. "
             "Trusted: TLC, the harness' term -> Ty construction, the renderer in tools/props/c13.py.",
        technique="TLA+ law checking over the recorded relation table + rule enumeration replayed into the front end",
        ref="DESIGN.md section 4 C13"),
    "C14": dict(
        engine="Mutability",
        category="model_checking",
        text="Mutability.tla's state graph enumerates every well-typed place chain (19 roots: := / "
             ":: locals, parameter, global, ^mut / ^ pointers held by :=, ::, annotated locals, "
             "parameters and call results, and the four pointer-to-pointer types ^^S, ^ ^mut S, "
             "^mut ^S, ^mut ^mut S as locals and parameters; steps: field, index, deref, "
             "(multi-level) auto-deref field / index, "
             "paren, #unwrap) and prescribes its mutability (last pointer crossed is ^mut, or no "
             "pointer crossed and a := root); TLC checks the incremental rule against the "
             "definitional one in every state. Each chain x {=, +=, ^mut} is one statement checked "
             "by the real front end; accepted iff mutable. Every accepted store to an i32 place (=, +=, "
             "and a store through r := ^mut place) is then executed and every i32 cell of the heap "
             "(MutHeap.tla: objects of the function, of its caller, pointer targets) is read back "
             "through two readers per cell; TraceAlias.tla validates the records: the written cell "
             "shows the new value through every alias, every other cell is unchanged.",
        note="quick: <= 3 steps, thorough: <= 4 steps. Trusted: TLC, the renderer in "
             "tools/props/c14.py, matching diagnostics to statements by line, the hex printer of "
             "the generated programs.",
        technique="TLA+ rule model (TLC enumeration) + spec-to-implementation replay + trace validation of executed stores (TraceAlias.tla)",
        ref="DESIGN.md section 4 C14"),
    "C15": dict(
        engine="Constness",
        category="model_checking",
        text="Constness.tla states the documented rule on chains of bindings: an expression in a "
             "const position is a chain of bindings (:: local, := local, global, imported global) "
             "ending in a base (literal, comptime block, comptime parameter, extern global, "
             "arithmetic, call, struct member), and it is const iff the base is a literal / "
             "comptime block / comptime parameter and every binding is immutable. TLC enumerates "
             "chains x bases x the four positions (type annotation, array length, enum "
             "discriminant, comptime argument of type or integer sort) x definition before / "
             "after use, checks that constness is never regained by putting a binding in front, "
             "and emits the verdict and the denoted value. Every case is one function (plus its "
             "globals, imported ones in lib.capy; generic ones are instantiated) given to the "
             "real front end - accepted iff const - and accepted array lengths are read back "
             "from the built program (a.len).",
        note="quick: chains of <= 2 bindings (581 cases), thorough: <= 3. Chains in which an "
             "imported global refers back to a global of the importing file are left out "
             "(counted in the evidence). Known findings F15-1..4 (four panic sites of the type "
             "checker on const positions). Trusted: TLC, the renderer in tools/props/c15.py, "
             "attribution of diagnostics to cases by line.",
        technique="TLA+ rule model (TLC invariant + enumeration) + spec-to-implementation replay",
        ref="DESIGN.md section 4 C15"),
    "C16": dict(
        engine="BV/CapySem",
        category="model_checking",
        text="CapySem.tla (the definitional interpreter of C01) binds a call's comptime arguments - "
             "types and constants - like ordinary immutable parameters: the beta-rule `a generic call "
             "behaves like a call of the copy in which the parameters are replaced by the "
             "arguments`, with instances determined by the argument values. Generated programs "
             "have functions with a type parameter T and optionally a constant N, bodies written "
             "for any integer T (arithmetic in T, literals T.(k), casts through concrete types, "
             "loops bounded by N, early return, nested generic calls passing T on), 3-5 "
             "instantiations per program (u8 .. i64, signed and unsigned; equal argument sets "
             "repeated, different ones interleaved) and a generic identity instantiated with an "
             "array and a struct (copy semantics kept). Each is compiled, linked, executed; TLC "
             "validates the output against the interpreter (TraceSem.tla).",
        note="quick: 120 programs, thorough: 2 500. Varargs and generics across files are not "
             "generated (files: C20). Trusted: TLC, the generator in tools/props/c16.py, the "
             "renderer, gcc as linker.",
        technique="TLA+ definitional interpreter (beta-rule for comptime parameters) + trace validation",
        ref="DESIGN.md section 4 C16"),
    "C17": dict(
        engine="Ty/Layout",
        category="model_checking",
        text="TLC generates the type universe of Layout.tla; the harness asks the code generator's "
             "own layout queries (codegen::verif_api::layouts -> calc_layouts, size/align/stride, "
             "struct offsets, tag offset) for every type and its direct components at pointer "
             "width 64 and 32; TLC validates every record against the representation rules "
             "(Rules: power-of-two alignment <= 8, ordered, aligned, disjoint struct fields inside "
             "the size, array = len x stride, distinct/variant = underlying, optional of pointer "
             "= pointer size and no tag, every other optional / error union / enum keeps a "
             "one-byte tag after the largest payload), against the System V C layout for structs "
             "of scalars (the spec's C operator is itself validated against gcc's offsetof), and "
             "against a transcription of layout.rs (drift). Completeness term by term.",
        note="quick: 905 types x 2 pointer widths, thorough: 2291 x 2. Hook: codegen::verif_api "
             "(cfg capy_verif). Trusted: TLC, the harness' term -> Ty construction, gcc.",
        technique="TLA+ trace validation of the exhaustively recorded layout table (TLC)",
        ref="DESIGN.md section 4 C17"),
    "C18": dict(
        engine="Layout/Reflect",
        category="model_checking",
        text="Reflect.tla prescribes, from Layout.tla's representation rules (validated against "
             "the code generator's own layout tables by C17), what core.meta must report for "
             "every type of its universe - size / align / stride; integer width and signedness; "
             "array length and element; slice / pointer / distinct sub type and pointer "
             "mutability; struct member names, types and offsets; enum variants with "
             "discriminants and the tag offset; optional and error-union parts and tag offsets - "
             "what address arithmetic on real values must show (member and element address "
             "differences) and the type-equality matrix (the identity: TLC checks the universe "
             "pairwise different and the descriptions consistent with the rules). One generated "
             "program reflects all 45 types at run time through a generic walk over Type_Info, "
             "measures addresses on real memory, evaluates size_of / align_of / stride_of inside "
             "comptime, compares every pair of type values and wraps values into `any`; its "
             "output is compared line by line with the prescription.",
        note="One universe for both tiers (45 types, 152 prescribed lines). Type identity of "
             "members is observed through (size, align) of the reported member type plus the "
             "equality matrix. Known finding F18 (usize == u64, isize == i64). Trusted: TLC, "
             "Layout.tla (C17), core's print for numbers and names, gcc as linker.",
        technique="TLA+ prescription from the layout model (TLC) + spec-to-implementation replay",
        ref="DESIGN.md section 4 C18"),
    "C19": dict(
        engine="Layout/SysVAbi",
        category="model_checking",
        text="SysVAbi.tla is the psABI's argument classification as a machine that adds one "
             "parameter at a time: integer registers left (of 6), SSE registers left (of 8); a "
             "parameter's class pattern per eightbyte from the leaves of its type (offsets from "
             "Layout.tla); MEMORY for more than 16 bytes; aggregates are never split between "
             "registers and stack, registers stay available after an aggregate went to the stack; "
             "a MEMORY-class result uses rdi. Every transition of its state graph - one per "
             "(registers left, hidden result pointer, type of the added parameter) after "
             "deduplication - is a signature: the parameters leading to the state, the tested "
             "parameter, a trailing scalar; result types rotate over the pool. For each the host "
             "gcc compiles a C callee and a C caller-through-function-pointer; the Capy program "
             "declares the callee extern, calls it, and hands its own function to the C caller. "
             "Both sides print every leaf of every argument and of the result; the verdict is "
             "value identity (the host compiler is the convention's reference).",
        note="quick: pool of 16 types, <= 6 parameters, 360 signatures x 4 printed lines; "
             "thorough: pool of 33 types (scalars, pointers, optional pointers, bool, char, structs "
             "of 1..64 bytes mixing integer / float eightbytes, arrays in structs), <= 8 "
             "parameters, every deduplicated transition. Hook-free: harness job field c_source "
             "(gcc compiles and links the C side). Trusted: TLC, gcc, the renderer in "
             "tools/props/c19.py.",
        technique="TLA+ classification machine (TLC state graph = test signatures) + replay against gcc-compiled C",
        ref="DESIGN.md section 4 C19"),
    "C20": dict(
        engine="Repro/OrderIndep",
        category="model_checking",
        text="OrderIndep.tla: an abstract program is a set of mutually referring global "
             "definitions; an arrangement chooses their textual order and a partition into files. "
             "A recorded history of arrangements is a behaviour iff every abstract program keeps "
             "the outcome (accepted, stdout, exit status; multiset of diagnostic kinds) of its "
             "first arrangement. Seeded abstract programs (constant chains through comptime "
             "blocks, structs whose array sizes are constants, nested structs, an enum, a distinct "
             "type, mutually recursive functions, a generic function using a constant, main "
             "printing values; every fourth with one type error) are arranged 9 ways - 5 orders "
             "in one file, two / three files, everything but main in a library, with imports and "
             "import cycles - compiled, linked, run, and the history validated by TLC.",
        note="quick: 32 programs x 9 arrangements, thorough: 400 x 9; one feature per program "
             "(recursive function in a comptime array length, comptime global over mutual recursion, "
             "array length through a constant of another file, dependent comptime parameters). The scheduler itself is "
             "C26's. Trusted: TLC, the arrangement renderer in tools/props/c20.py, gcc as linker.",
        technique="TLA+ history machine + trace validation of recorded arrangements",
        ref="DESIGN.md section 4 C20"),
    "C21": dict(
        engine="Repro",
        category="model_checking",
        text="Repro.tla: a history of compilations is a behaviour iff every input (the set of "
             "files with their contents and the options) keeps the outcome - object hash, rendered "
             "diagnostics - of its first compilation; Compile(i, o) is enabled only if i was never "
             "compiled or was compiled with outcome o. The recorded history compiles every input "
             "in three fresh processes (address-space randomisation on: interned types are hashed "
             "by address), once after an unrelated program was compiled to an object in the same "
             "process (process-global tables LAYOUTS / FINAL_TYS / type names) and, for programs "
             "of several files, with the other files registered in reverse and in forward order "
             "before the import work-list finds them; TLC validates the history.",
        note="quick: 36 inputs (valid, several-file, generated, comptime data with padding, and "
             "token-mutated invalid programs), 174 "
             "compilations; thorough: 320 inputs. Diagnostics of the re-ordered variants are "
             "compared as multisets plus, when equal, in order. The TLA+ content is one history "
             "variable (said in DESIGN.md). Trusted: TLC, sha256 of the object bytes, the "
             "harness' warm-up compile in the same process.",
        technique="TLA+ history machine + trace validation of recorded compilation histories",
        ref="DESIGN.md section 4 C21"),
    "C22": dict(
        engine="Lexer",
        category="model_checking",
        text="Every string of length <= 3 (quick) / <= 4 (thorough) over a 24-symbol alphabet "
             "covering every token-starting class is lexed by the real lexer; TLC validates every "
             "recorded run against Lexer.tla: tokens tile the input on character boundaries and "
             "each token's text is in the language of its kind (one recogniser per kind from "
             "tokenizer.txt), asserts that the record set is the whole enumerated space, and "
             "compares with an exact maximal-munch model (drift only). Corpus files, random "
             "Unicode and corpus mutations up to 64 KiB are validated the same way.",
        note="Exhaustive inside the stated alphabet/length; texts longer than 24 bytes are "
             "checked for tiling, known kind names and character boundaries only. Trusted: TLC, "
             "the harness' token dump (Tokens::kind/range), Python's Unicode tables for \\d.",
        technique="TLA+ trace validation of exhaustive lexer runs (TLC)",
        ref="DESIGN.md section 4 C22"),
    "C23": dict(
        engine="ParserObs",
        category="model_checking",
        text="All token sequences of the enumerated spaces (12 tokens x length <= 4 quick; "
             "12 x <=5, 16 x <=4, 8 x <=6 thorough) are parsed by the real parser, as source file "
             "and as REPL line, in child processes with stall detection; TLC validates every "
             "record against ParserObs.tla (terminated, tree leaves = lexer tokens, error "
             "locations inside the input, nodes+errors linear in tokens) and asserts completeness "
             "of the enumeration. Corpus, mutants, depth-200 nesting and 64 KiB inputs likewise.",
        note="The parser itself is not modelled (only its observable contract). A hang is "
             "observed as a 4 s stall of a child process. Trusted: TLC, the harness' tree walk.",
        technique="TLA+ trace validation of exhaustive parser runs (TLC)",
        ref="DESIGN.md section 4 C23"),
    "C24": dict(
        engine="ExprGrammar",
        category="model_checking",
        text="ExprGrammar.tla defines abstract expression trees, the precedence table and a printer "
             "with minimal (and with redundant) parentheses; TLC checks the printer injective on "
             "every family and emits the families (all atoms x every prefix / postfix / binary "
             "operator, all 18x18 binary-operator pairs in both nestings, 14 operand shapes in "
             "every operator position, depth-3 shapes in the thorough tier). Every text is parsed "
             "by the real parser (REPL entry) and the tree read back through the ast accessors must "
             "equal the abstract tree, with zero syntax errors.",
        note="The property does not order prefix against postfix operators, so those combinations "
             "are always printed with parentheses. Trusted: TLC, the harness' ast -> JSON walk "
             "(BinaryExpr::lhs/rhs/op etc.).",
        technique="TLA+ grammar model (TLC enumeration) + spec-to-implementation replay",
        ref="DESIGN.md section 4 C24"),
    "C25": dict(
        engine="LineCol",
        category="model_checking",
        text="LineIndex::line_col is evaluated for every string of length <= 6 (quick) / <= 8 "
             "(thorough) over {a, LF, CR, TAB, e-acute} at every byte offset; TLC validates each "
             "record against the definition in LineCol.tla (line = newlines before the offset, "
             "column = offset - line start) and the cardinality of the enumeration. Every "
             "diagnostic rendered while compiling mutated corpus programs contributes a record "
             "(newline offsets, range start, 1-based header) validated by the same spec.",
        note="Exhaustive inside the stated alphabet/length. Trusted: TLC, the harness' parsing of "
             "the '--> at file:line:col' header.",
        technique="TLA+ trace validation of exhaustive line-index runs (TLC)",
        ref="DESIGN.md section 4 C25"),
    "C26": dict(
        engine="TopoSched/TopoImpl",
        category="model_checking",
        text="TLC checks that the implementation-shaped model of TopoSort (TopoImpl.tla) refines "
             "the scheduling contract (TopoSched.tla: offered = ready, cycle only if all blocked, "
             "no re-offer of completed items, drains) over every history in the bound; every "
             "transition of the bounded model is then replayed, call by call, into the real "
             "topo::TopoSort and the offered set / cycle flag / length compared with the spec.",
        note="quick: Items=1..3, <=6 rounds, exhaustive, every transition replayed; thorough adds "
             "the property's bound (4 items, 8 rounds) at model level plus 4000 simulated "
             "behaviours replayed. Trusted: TLC, the harness' replay loop, the usage protocol "
             "(dependencies only on not-yet-completed items) as stated in the property.",
        technique="TLA+ refinement (TLC) + spec-to-implementation trace replay",
        ref="DESIGN.md section 4 C26"),
    "C27": dict(
        engine="Mangle",
        category="model_checking",
        text="Mangle.tla models file-name components, entity kinds and the mangling scheme as coded "
             "(get_components incl. the src skip, the digit-leading rule, '.'->'-'), with the three "
             "wrong behaviours as named deviations: TLC shows the repaired scheme injective on the "
             "descriptor universe and lists the collisions of the scheme as coded. The harness "
             "mangles all 15 424 descriptors with codegen's own Mangle implementations; TLC checks "
             "injectivity of the recorded symbols, that none is `main` or an internal name, and "
             "equality with the model (drift). A collision the as-coded model predicts is a "
             "recorded known finding; any other is a violation.",
        note="Hook: codegen::verif_api (cfg capy_verif). Paths are descriptors (no files are "
             "created). Known findings F27a/b/c. Trusted: TLC, the harness' descriptor -> "
             "location construction.",
        technique="TLA+ model checking of the scheme + trace validation of recorded symbols (TLC)",
        ref="DESIGN.md section 4 C27"),
    "C28": dict(
        engine="Imports",
        category="model_checking",
        text="Imports.tla fixes a directory tree (working directory with a sub-directory and a "
             "non-.capy file, a directory outside, a module directory with / without mod.capy), "
             "enumerates configurations of #import / #mod directives (with `..`, `.`, self and "
             "cyclic imports, missing, non-.capy and outside targets, non-alphanumeric module "
             "names), prescribes per directive the rejection reasons and the resolution target, "
             "the closure of compiled files and what `file.id` denotes, and model-checks the CLI's "
             "import work-list as a state machine (parses exactly the closure, no file twice, "
             "terminates - for every configuration). Every relevant configuration is materialised "
             "on disk and built with the repository's own CLI under strace: exit status, "
             "diagnostics per rejected directive, program output and one read per compiled file.",
        note="quick: <= 2 directives in main.capy, <= 1 in a.capy and d/b.capy (seed-selected "
             "third of the two-directive configurations); thorough: all of them and <= 2 in the "
             "other files. The CLI is crates/capy/src/main.rs compiled inside the harness workspace. "
             "Trusted: TLC, strace, the message -> diagnostic-kind table in tools/props/c28.py.",
        technique="TLA+ model checking of the import work-list + spec-to-implementation replay (CLI)",
        ref="DESIGN.md section 4 C28"),
}

PLANNED = {}


def main():
    checks = []
    for pid in ALL:
        if pid not in CHECKS:
            continue
        c = CHECKS[pid]
        checks.append({
            "property_id": pid,
            "quick_cmd": "python3 tools/check.py %s --tier quick" % pid,
            "thorough_cmd": "python3 tools/check.py %s --tier thorough" % pid,
            "evidence_file": "evidence/%s.json" % pid,
            "replay_cmd_template": "python3 tools/check.py %s --replay {path}" % pid,
            "engine": c["engine"],
            "level_claimed": {"category": c["category"], "text": c["text"],
                              "design_ref": c["ref"]},
            "level_note": c["note"],
            "technique": c["technique"],
        })
    na = [{"property_id": p,
           "reason": PLANNED.get(p, "check not built yet in this round; see DESIGN.md section 4 "
                                    "for the planned TLA+ specification and binding")}
          for p in ALL if p not in CHECKS]
    engines = {}
    for pid, c in CHECKS.items():
        engines.setdefault(c["engine"], []).append(pid)
    man = {
        "version": 1,
        "setup_cmd": "sh tools/setup.sh",
        "hooks": {
            "guard": "capy_verif",
            "enable": "rustflags = [\"--cfg\", \"capy_verif\"] in /verif/harness/.cargo/config.toml "
                      "(the harness has path dependencies on /repo/crates/*)",
            "baseline_off_cmd": "cd /repo && cargo nextest run --workspace --no-fail-fast "
                                "--test-threads 8 --offline || cargo test --workspace "
                                "--no-fail-fast --offline",
            "source_commits": HOOK_COMMITS,
            "add_only": True,
        },
        "engines": [{"name": n, "path": "spec/", "serves_properties": sorted(ps),
                     "kind_free_text": "TLA+ specification checked with TLC, bound to the code "
                                       "by the Rust harness in harness/ (replay / trace "
                                       "validation)"} for n, ps in sorted(engines.items())],
        "checks": checks,
        "not_applicable": na,
        "notes": "One technique family: explicit TLA+ specifications (spec/*.tla) model-checked "
                 "with TLC and bound to /repo's working tree by conformance checks "
                 "(tools/check.py, harness/). Exit 0 = held, 1 = VIOLATION line, 2 = tool error.",
    }
    with open(os.path.join(VERIF, "MANIFEST.json"), "w") as f:
        json.dump(man, f, indent=1)
    print("MANIFEST.json: %d checks, %d not_applicable" % (len(checks), len(na)))


HOOK_COMMITS = ["d66e8a5", "4a8eee1"]

if __name__ == "__main__":
    main()
