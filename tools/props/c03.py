"""C03 - each executed defer runs exactly once, in LIFO order, on every exit path.

spec/Defer.tla enumerates skeleton programs (its state graph) and gives, for each, the output the
language prescribes; every skeleton is rendered to Capy, compiled with the real pipeline, run, and
its stdout compared with the prescription.
"""
import json
import os

import common
from common import log

PRELUDE = """putchar :: (c: i32) -> i32 extern;
emit :: (c: i32) { putchar(c); }
"""


def render_fn(name, prog):
    """tokens -> Capy function text"""
    out = ["%s :: () -> ?i32 {" % name, "    one := 1;", "    nilv : ?i32 = nil;",
           "    okv : ?i32 = 5;", "    zarr := void.[{}, {}];"]

    def match_end(k):            # 1-based position of the end token matching the open token at k
        depth = 0
        for j in range(k, len(prog) + 1):
            t = prog[j - 1]["t"]
            if t in ("blk", "loop", "cblk"):
                depth += 1
            elif t == "end":
                depth -= 1
                if depth == 0:
                    return j
        return len(prog) + 1
    stack = []  # (kind, pos)
    ind = 1

    def line(s):
        out.append("    " * ind + s)
    for k, tk in enumerate(prog, start=1):
        t = tk["t"]
        if t == "d":
            line("defer emit(%d);" % (64 + k))
        elif t == "blk":
            # every second unlabeled block is written as the INDEX of an array of zero-sized
            # elements (`zarr[{ .. 0 }]`): the language gives it the same meaning - the block runs,
            # its defers run when it is left - although there is nothing to load
            m = match_end(k)
            last = prog[m - 2] if m - 2 >= k else None
            as_index = tk["a"] == 0 and k % 2 == 1 and not (last and last["t"] == "jmp" and last["a"] != "try")
            if as_index:
                line("zq%d := zarr[{" % k)
                stack.append(("iblk", k))
            else:
                line(("`a: {" if tk["a"] == 1 else "{"))
                stack.append(("blk", k))
            ind += 1
        elif t == "loop":
            line("i%d := 0;" % k)
            line(("`a: " if tk["a"] == 1 else "") + "while i%d < 2 {" % k)
            stack.append(("loop", k))
            ind += 1
            line("i%d += 1;" % k)
        elif t == "cblk":
            if tk["a"] == 0:
                line("if one == 1 {")
            else:
                lk = [p for (kk, p) in stack if kk == "loop"][-1]
                line("if i%d == %d {" % (lk, tk["a"]))
            stack.append(("cblk", k))
            ind += 1
        elif t == "end":
            kind, pos = stack.pop()
            if kind == "iblk":
                line("0")
            ind -= 1
            line("}];" if kind == "iblk" else "}")
            if kind in ("blk", "loop", "iblk"):
                line("emit(%d);" % (96 + pos))
        elif t == "tryok":
            line("okv.try;")
        elif t == "jmp":
            a, b = tk["a"], tk["b"]
            if a == "break":
                to_fn = b == 0 and not any(kk == "loop" or (kk in ("blk", "iblk") and prog[p - 1]["a"] == 1)
                                           for (kk, p) in stack)
                # an unlabeled break outside every loop / labeled block leaves the function
                # (the compiler warns) and therefore needs the function's value
                line("break `a;" if b == 1 else ("break 3;" if to_fn else "break;"))
            elif a == "continue":
                line("continue `a;" if b == 1 else "continue;")
            elif a == "return":
                line("return 3;")
            else:
                line("nilv.try;")
    # a `.try` is conditional for the type checker: the body still needs its tail value
    if not (prog and prog[-1]["t"] == "jmp" and prog[-1]["a"] != "try"):
        line("emit(36);")
        line("7")
    out.append("}")
    return "\n".join(out)


def expected_text(events):
    s = []
    for kind, k in events:
        if kind == "D":
            s.append(chr(64 + k))
        elif kind == "M":
            s.append(chr(96 + k))
        else:
            s.append("$")
    return "".join(s)


def program(cases):
    parts = [PRELUDE]
    for n, c in enumerate(cases):
        parts.append(render_fn("f%d" % n, c["prog"]))
    parts.append("main :: () -> i32 {")
    for n in range(len(cases)):
        parts.append("    f%d(); emit(10);" % n)
    parts.append("    0\n}")
    return "\n".join(parts)


def short(prog):
    def one(tk):
        t = tk["t"]
        if t == "d":
            return "d"
        if t in ("blk", "loop"):
            return t + ("`a" if tk["a"] == 1 else "") + "{"
        if t == "cblk":
            return "if%s{" % (tk["a"] or "")
        if t == "end":
            return "}"
        if t == "tryok":
            return "try-ok"
        return tk["a"] + ("`a" if tk["b"] == 1 else "")
    return " ".join(one(t) for t in prog)


def run_cases(chk, cases, name, per=120):
    """compile+run in batches; returns list of (case, observed or None, why)"""
    results = [None] * len(cases)
    todo = [(list(range(i, min(i + per, len(cases))))) for i in range(0, len(cases), per)]
    rnd = 0
    while todo:
        jobs = []
        for bi, idxs in enumerate(todo):
            jobs.append({"id": "b%d" % bi, "files": {"main.capy": program([cases[i] for i in idxs])},
                         "run": True, "timeout_ms": 20000})
        res = common.run_batch(jobs, chk.wd, "%s_r%d" % (name, rnd))
        nxt = []
        for idxs, r in zip(todo, res):
            ok = r.get("run") and r["run"].get("status") == 0 and not r["has_errors"] \
                and not r.get("panic")
            if ok:
                lines = r["run"]["stdout"].split("\n")
                for n, i in enumerate(idxs):
                    results[i] = (lines[n] if n < len(lines) else "<missing>", "")
            elif len(idxs) == 1:
                why = "rejected: " + ",".join(sorted({d["kind"] for d in r["diags"] if d["sev"] == "error"})) \
                    if r["has_errors"] else ("panic: %s" % (r["panic"],) if r.get("panic") else
                                             "run: %s" % (r.get("run"),))
                results[idxs[0]] = (None, why)
            else:
                # split to isolate the offending skeleton(s)
                h = max(1, len(idxs) // 4)
                nxt += [idxs[j:j + h] for j in range(0, len(idxs), h)]
        todo = nxt
        rnd += 1
    return results


def run(chk):
    cfg = "Defer_q.cfg" if chk.tier == "quick" else "Defer_t.cfg"
    res = common.run_tlc("Defer", cfg, chk.wd, workers=8, timeout=3000, out_name="enum.out")
    chk.require_tlc_ok("Defer.tla skeleton enumeration + reference semantics", res)
    cases = list(common.tlc_lines(res.out, "REPLAY"))
    os.remove(res.out)
    for c in cases:
        c["exp"] = expected_text(c["out"])
    results = run_cases(chk, cases, "sk")
    rejected = {}
    nrun = 0
    for c, (obs, why) in zip(cases, results):
        if obs is None:
            rejected.setdefault(why[:60], []).append(short(c["prog"]))
            continue
        nrun += 1
        if obs != c["exp"]:
            chk.violation({"kind": "defer-output", "skeleton": short(c["prog"])},
                          {"skeleton": short(c["prog"]), "expected": c["exp"], "observed": obs,
                           "source": render_fn("f0", c["prog"]),
                           "how": "compile and run; letters = defers by token position, lower case"
                                  " = markers after scopes, $ = end of body"})
    for n in (10, len(cases) // 2, len(cases) - 5):
        if 0 <= n < len(cases):
            chk.sample({"skeleton": short(cases[n]["prog"]), "expected": cases[n]["exp"],
                        "observed": results[n][0]})
    chk.cov["traces_validated_against_impl"] = nrun
    chk.cov["evaluations"] = len(cases)
    chk.cov["distinct_nontrivial"] = len({short(c["prog"]) for c in cases})
    chk.cov["not_accepted"] = {k: {"count": len(v), "example": v[0]} for k, v in rejected.items()}
    chk.cov["exhaustive"] = True
    chk.cov["rule"] = ("every complete skeleton of Defer.tla within the cfg's bound that contains a "
                       "defer; each is one executed function whose stdout is compared with the "
                       "reference semantics' output")
    if rejected:
        log("note: %d skeletons not accepted/compiled: %s" % (
            sum(len(v) for v in rejected.values()),
            {k: len(v) for k, v in rejected.items()}))


def replay(path):
    v = json.load(open(path))
    print(v["detail"]["source"])
    print("expected:", v["detail"]["expected"], "observed:", v["detail"]["observed"])
    return 1
