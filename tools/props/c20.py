"""C20 - results do not depend on the order of definitions or files.  spec/OrderIndep.tla.

Seeded abstract programs: constants (chains through comptime blocks), structs whose array sizes
are constants, nested structs, an enum, a distinct type, functions using them (mutual recursion,
a generic function using a constant), main printing values.  Each is arranged in several orders
(as written, reversed, shuffled) and partitions (one file, two, three - references across files
through imports, import cycles included), compiled, linked and run; TLC validates that every
arrangement has the outcome of the first.
"""
import hashlib
import json
import os
import random
import re

import common
from props import c08


FEATURES = ["none", "tri", "gc", "arrn", "depgen"]


def abstract_program(seed, broken=False, feature="none"):
    """list of items {name, text}; references to other items are written @name@"""
    r = random.Random(seed)
    c1 = r.choice([2, 3, 4])
    items = []
    add = lambda name, text: items.append({"name": name, "text": text})
    add("C1", "C1 : usize : %d;" % c1)
    add("C2", "C2 :: comptime { @C1@ + %d };" % r.randrange(1, 5))
    add("C3", "C3 :: comptime { @C2@ * @C1@ };")
    add("S1", "S1 :: struct { a: i32, b: [@C1@]u8 };")
    add("S2", "S2 :: struct { s: @S1@, k: i64 };")
    add("E1", "E1 :: enum { A: @S1@, B: i32, C };")
    add("D1", "D1 :: distinct i32;")
    add("f1", "f1 :: (x: i32) -> i32 { x * i32.(@C1@) + i32.(@C2@) }")
    bs = ", ".join(str(r.randrange(1, 200)) for _ in range(c1))
    add("mk", "mk :: (n: i32) -> @S2@ { @S2@.{ s = @S1@.{ a = @f1@(n), b = u8.[%s] }, k = i64.(@C3@) } }" % bs)
    add("total", "total :: (v: @S2@) -> i64 { i64.(v.s.a) + v.k + i64.(v.s.b[%d]) }" % r.randrange(c1))
    add("even", "even :: (n: i32) -> bool { if n == 0 { true } else { @odd@(n - 1) } }")
    add("odd", "odd :: (n: i32) -> bool { if n == 0 { false } else { @even@(n - 1) } }")
    add("bump", "bump :: (comptime T: type, x: T) -> T { x + T.(@C1@) }")
    add("pick", "pick :: (e: @E1@) -> i32 { switch v in e { .A => v.a, .B => i32.(v), .C => 0 - i32.(@C2@), } }")
    add("wrap", "wrap :: (x: i32) -> @D1@ { @D1@.(x * 2) }")
    # globals whose ANNOTATION is another global (a type defined elsewhere, possibly later), and
    # globals that refer to them at global level
    add("K0", "K0 : @D1@ : comptime { @D1@.(%d) };" % r.randrange(1, 90))
    add("K1", "K1 :: comptime { i32.(@K0@) + %d };" % r.randrange(1, 9))
    add("K2", "K2 : @S1@ : comptime { @S1@.{ a = 7, b = u8.[%s] } };" % ", ".join(str(r.randrange(1, 200)) for _ in range(c1)))
    add("K3", "K3 :: comptime { @K2@.a + @K1@ };")
    if broken:
        # one type error inside one definition: the same diagnostics whatever the arrangement
        k = r.choice(["f1", "total", "wrap"])
        for it in items:
            if it["name"] == k:
                it["text"] = it["text"].replace("-> i32 {", "-> bool {").replace("-> i64 {", "-> bool {").replace("-> @D1@ {", "-> bool {")
    extra = []
    if feature == "tri":
        # a recursive function called from a comptime block whose value is needed while main is inferred
        add("tri", "tri :: (n: usize) -> usize { if n == 0 { 0 } else { n + @tri@(n - 1) } }")
        extra = ["    row : [comptime { @tri@(@C1@) }] i32;", "    rl := row.len; emit(^rl, 8); nl();"]
    elif feature == "gc":
        # a non-function global whose comptime block calls mutually recursive functions
        add("GC", "GC :: comptime { @even@(%d) };" % r.randrange(1, 6))
        extra = ["    g : bool = @GC@; emit(^g, 1); nl();"]
    elif feature == "arrn":
        # an array type whose length is a global that is another global that is a comptime block
        add("M4", "M4 : usize : comptime { 2 + %d };" % r.randrange(1, 4))
        add("N4", "N4 :: @M4@;")
        add("Arr4", "Arr4 :: [@N4@] i32;")
        extra = ["    a4 : @Arr4@; al := a4.len; emit(^al, 8); nl();"]
    elif feature == "depgen":
        # a generic whose second comptime parameter has the type given by the first
        add("dpick", "dpick :: (comptime T: type, comptime v: T, x: T) -> T { x + v }")
        extra = ["    dp := @dpick@(i32, %d, 7); emit(^dp, 4); nl();" % r.randrange(1, 50)]
    n1, n2 = r.randrange(1, 9), r.randrange(1, 9)
    main = ["main :: () -> i32 {"] + extra + [
            "    v := @mk@(%d);" % n1,
            "    t := @total@(v); emit(^t, 8); nl();",
            "    c : usize = @C3@; emit(^c, 8); nl();",
            "    e := @even@(%d); emit(^e, 1); nl();" % n2,
            "    b8 := @bump@(u8, 250); emit(^b8, 1); nl();",
            "    b64 := @bump@(i64, 1000); emit(^b64, 8); nl();",
            "    p1 := @pick@(@E1@.A.(v.s)); emit(^p1, 4); nl();",
            "    p2 := @pick@(@E1@.B.(%d)); emit(^p2, 4); nl();" % r.randrange(100),
            "    p3 := @pick@(@E1@.C); emit(^p3, 4); nl();",
            "    w := i32.(@wrap@(%d)); emit(^w, 4); nl();" % r.randrange(50),
            "    k1 : i32 = @K1@; emit(^k1, 4); nl();",
            "    k3 : i32 = @K3@; emit(^k3, 4); nl();",
            "    %d" % r.randrange(200),
            "}"]
    add("main", "\n".join(main))
    # keep a random subset of the optional parts out, so programs differ in shape
    return items


def arrange(items, order, files_of):
    """order: permutation of item indices; files_of: item name -> file.  Returns {file: text}"""
    names = {it["name"] for it in items}
    out = {}
    needs = {}
    for k in order:
        it = items[k]
        f = files_of[it["name"]]

        def ref(m):
            n = m.group(1)
            g = files_of[n]
            if g == f:
                return n
            needs.setdefault(f, set()).add(g)
            return "m_%s.%s" % (g[:-5], n)
        out.setdefault(f, []).append(re.sub(r"@(\w+)@", ref, it["text"]))
    texts = {}
    for f, parts in out.items():
        imports = ["m_%s :: #import(\"%s\");" % (g[:-5], g) for g in sorted(needs.get(f, []))]
        pre = c08.prelude() if f == "main.capy" else ""
        # the helpers (emit / nl) live in main.capy only; main is always there
        texts[f] = pre + "\n".join(imports + parts) + "\n"
    return texts


def run(chk):
    rng = random.Random(chk.seed + 20)
    nprog = 32 if chk.tier == "quick" else 400
    jobs, meta = [], []
    for p in range(nprog):
        broken = p % 4 == 3
        feature = FEATURES[(p // 4) % len(FEATURES)] if not broken else "none"
        items = abstract_program(chk.seed * 31 + p, broken, feature)
        iid = hashlib.sha256(json.dumps(items).encode()).hexdigest()[:16]
        n = len(items)
        others = [it["name"] for it in items if it["name"] != "main"]
        orders = [list(range(n)), list(reversed(range(n)))]
        for _ in range(3):
            o = list(range(n))
            rng.shuffle(o)
            orders.append(o)
        one = {it["name"]: "main.capy" for it in items}
        two = dict(one)
        for nm in others:
            if rng.random() < 0.5:
                two[nm] = "lib.capy"
        three = dict(one)
        for nm in others:
            three[nm] = rng.choice(["main.capy", "lib.capy", "util.capy"])
        allout = {nm: "lib.capy" for nm in others}
        allout["main"] = "main.capy"
        variants = [("order%d/one-file" % k, o, one) for k, o in enumerate(orders)]
        variants += [("order0/two-files", orders[0], two), ("order2/two-files", orders[2], two),
                     ("order1/three-files", orders[1], three), ("order3/all-in-lib", orders[3], allout)]
        for vname, o, fo in variants:
            files = arrange(items, o, fo)
            jobs.append({"id": "j%d" % len(jobs), "files": files, "run": True, "timeout_ms": 30000})
            meta.append((p, iid, vname, broken, feature))
    results = common.run_batch(jobs, chk.wd, "ord", par=12)
    recs = []
    for (p, iid, vname, broken, feature), r in zip(meta, results):
        kinds = sorted(d["kind"] for d in r["diags"] if d["sev"] == "error")
        crashed = r.get("panic") or r.get("crash") or r.get("cranelift_err")
        run_ = r.get("run") or {}
        obs = json.dumps([not r["has_errors"] and not crashed, run_.get("stdout"), run_.get("status"),
                          "crash" if crashed else ""])
        recs.append({"input": iid, "variant": vname, "obj": hashlib.sha256(obs.encode()).hexdigest()[:24],
                     "diag": hashlib.sha256(json.dumps(kinds).encode()).hexdigest()[:24],
                     "obs": json.loads(obs), "kinds": kinds})
    trace = os.path.join(chk.wd, "history.ndjson")
    common.write_ndjson(trace, [{k: r[k] for k in ("input", "variant", "obj", "diag")} for r in recs])
    res = common.run_tlc("OrderIndep", "OrderIndep.cfg", chk.wd, workers=1, timeout=1800, env={"TRACE": trace},
                         dfs=True, out_name="ord.out")
    chk.require_tlc_ok("OrderIndep.tla on the recorded arrangements", res)
    chk.cov["traces_validated_against_impl"] = len(recs)
    first = {}
    for k, r in enumerate(recs):
        first.setdefault(r["input"], k)
    seen = set()
    for b in common.tlc_lines(res.out, "BAD"):
        k = b["idx"] - 1
        if k in seen:
            continue
        seen.add(k)
        p, iid, vname, broken, feature = meta[k]
        f = first[iid]
        pan = results[k].get("panic") or results[f].get("panic") or {}
        from props import c06
        chk.violation({"kind": "arrangement", "feature": feature, "broken": broken,
                       "site": c06.site_of(pan) if pan else "", "kinds": ",".join(sorted(set(recs[k]["kinds"]) ^ set(recs[f]["kinds"])))},
                      {"variant": vname, "first_variant": meta[f][2], "this": {"obs": recs[k]["obs"], "diag_kinds": recs[k]["kinds"]},
                       "first": {"obs": recs[f]["obs"], "diag_kinds": recs[f]["kinds"]},
                       "files": jobs[k]["files"], "first_files": jobs[f]["files"],
                       "how": "same definitions, other order / partition into files; compiled, linked, run"})
    # sanity: valid programs must actually run (otherwise the comparison is vacuous)
    nvalid = sum(1 for (p, iid, v, broken, ft), r in zip(meta, recs) if not broken and r["obs"][0] and r["obs"][2] is not None)
    chk.cov["valid_arrangements_run"] = nvalid
    chk.cov["broken_arrangements"] = sum(1 for m in meta if m[3])
    if nvalid < sum(1 for m in meta if not m[3]) // 2:
        raise common.ToolError("most valid arrangements were not accepted / run: %s" % recs[0])
    chk.sample({"variant": meta[1][2], "files": jobs[1]["files"].keys().__len__(), "obs": recs[1]["obs"]})
    chk.sample({"variant": meta[6][2], "source": {k: v[-600:] for k, v in jobs[6]["files"].items()}})
    chk.cov["evaluations"] = len(recs)
    chk.cov["distinct_nontrivial"] = len({json.dumps(j["files"], sort_keys=True) for j in jobs})
    chk.cov["rule"] = ("seeded abstract programs of 16 mutually referring definitions, 9 arrangements each (5 orders in "
                       "one file; two / three files and everything-but-main in a library, with imports and import "
                       "cycles); every fourth program has one type error (diagnostic kinds compared)")


def replay(path):
    v = json.load(open(path))
    for f, t in v["detail"]["files"].items():
        print("#-", f)
        print(t)
    print(json.dumps({k: v["detail"][k] for k in ("variant", "this", "first")}))
    return 1
