"""C13 - distinct types, variants and named structs are nominal."""
import json

import props.tyrel_common as T

LAWS = ["Nominal", "DistinctCasts"]


def run(chk):
    T.check_laws(chk, LAWS, ["1"] if chk.tier == "quick" else ["1", "2"])


def replay(path):
    print(json.dumps(json.load(open(path))["detail"], indent=1))
    return 1
