"""C13 - distinct types, variants and named structs are nominal.

(1) relation level: the nominal-typing laws of spec/TyRelLaws.tla on the recorded relation table
(same table as C12); (2) program level: spec/NominalProg.tla enumerates source kind x expected
type x position (annotation, argument, return, assignment, binary operand) with the verdict of the
rule; every case is one function checked by the real front end; (3) casts between a distinct type
and its underlying type are executed and must keep the bytes.
"""
import json
import os

import common
import props.tyrel_common as T
from props import c08

LAWS = ["Nominal", "DistinctCasts"]

PRE = c08.prelude() + """D1 :: distinct i32;
D2 :: distinct i32;
DD :: distinct D1;
S1 :: struct { x: i32, y: u8 };
S2 :: struct { x: i32, y: u8 };
E1 :: enum { A: i32, B };
E2 :: enum { A: i32, B };
"""
TY = {"d1": "D1", "d2": "D2", "dd": "DD", "s1": "S1", "s2": "S2", "i32": "i32", "e1": "E1", "e2": "E2"}
SRC = {"d1": "D1.(5)", "d2": "D2.(5)", "dd": "DD.(D1.(5))", "s1": "S1.{ x = 5, y = 6 }", "va": "E1.A.(5)", "vb": "E1.B",
       "i32": "i32.(5)", "lit": "5"}
SRCTY = {"d1": "D1", "d2": "D2", "dd": "DD", "s1": "S1", "va": "E1.A", "vb": "E1.B", "i32": "i32"}
DEF = {"d1": "D1.(1)", "d2": "D2.(1)", "dd": "DD.(D1.(1))", "s1": "S1.{ x = 1, y = 1 }", "s2": "S2.{ x = 1, y = 1 }", "i32": "i32.(1)",
       "e1": "E1.B", "e2": "E2.B"}


def render(n, c):
    a, b, pos = c["a"], c["b"], c["pos"]
    B = TY[b]
    # the source value lives in a variable of its own type (except the untyped literal)
    src = "5" if a == "lit" else "a"
    decl = [] if a == "lit" else ["    a : %s = %s;" % (SRCTY[a], SRC[a])]
    if pos == "ann":
        return "\n".join(["k%d :: () {" % n] + decl + ["    x : %s = %s;" % (B, src), "}"])
    if pos == "arg":
        return "\n".join(["t%d :: (p: %s) {}" % (n, B), "k%d :: () {" % n] + decl + ["    t%d(%s);" % (n, src), "}"])
    if pos == "ret":
        return "\n".join(["k%d :: () -> %s {" % (n, B)] + decl + ["    %s" % src, "}"])
    if pos in ("flowl", "flowr", "flowi"):
        e = {"flowl": "1 + a", "flowr": "a + 1", "flowi": "i + a"}[pos]
        return "\n".join(["k%d :: () {" % n] + decl + ["    i : i32 = 2;", "    x : %s = %s;" % (B, e), "}"])
    if pos == "asg":
        return "\n".join(["k%d :: () {" % n] + decl + ["    b : %s = %s;" % (B, DEF[b]), "    b = %s;" % src, "}"])
    return "\n".join(["k%d :: () {" % n] + decl + ["    b : %s = %s;" % (B, DEF[b]), "    r := %s + b;" % src, "}"])


def run(chk):
    T.check_laws(chk, LAWS, ["1"] if chk.tier == "quick" else ["1", "2"])
    res = common.run_tlc("NominalProg", "NominalProg.cfg", chk.wd, workers=2, timeout=600, out_name="nom.out")
    chk.require_tlc_ok("NominalProg.tla (nominal law on the rule; verdict per case)", res)
    seen, cases = set(), []
    for x in common.tlc_lines(res.out, "CASE"):
        kk = json.dumps(x["c"], sort_keys=True)
        if kk not in seen:
            seen.add(kk)
            cases.append(x)
    os.remove(res.out)
    cases.sort(key=lambda x: json.dumps(x["c"], sort_keys=True))
    snips = [render(n, x["c"]) for n, x in enumerate(cases)]
    verdicts = common.front_end_verdicts(chk, snips, PRE, "nom", per=120)
    for n, (x, v) in enumerate(zip(cases, verdicts)):
        c = x["c"]
        if v["crash"]:
            chk.violation({"kind": "front-end-crash", "pos": c["pos"]}, {"case": c, "source": snips[n], "crash": v["crash"]})
        elif x["judged"] and v["accepted"] != x["accept"]:
            chk.violation({"kind": "program-verdict", "a": c["a"], "b": c["b"], "pos": c["pos"], "accepted": v["accepted"]},
                          {"case": c, "source": snips[n], "decls": PRE[-260:], "accepted_by_the_rule": x["accept"],
                           "compiler_accepted": v["accepted"], "diagnostics": v["kinds"]})
    # casts distinct <-> underlying keep the value
    prog = PRE + """main :: () -> i32 {
    v : i32 = 1234567;
    d := D1.(v); emit(^d, 4); nl();
    back := i32.(d); emit(^back, 4); nl();
    dd := DD.(d); emit(^dd, 4); nl();
    d1 := D1.(dd); emit(^d1, 4); nl();
    s := S1.{ x = 77, y = 9 };
    0
}
"""
    r = common.run_batch([{"id": "casts", "files": {"main.capy": prog}, "run": True, "timeout_ms": 30000}], chk.wd, "nomrun", par=1)[0]
    want = "87d61200"
    lines = (r.get("run") or {}).get("stdout", "").split("\n")[:4]
    if r["has_errors"] or lines != [want] * 4:
        chk.violation({"kind": "distinct-cast"}, {"source": prog[-400:], "observed": lines, "prescribed": [want] * 4,
                                                  "diagnostics": [d["kind"] for d in r["diags"] if d["sev"] == "error"]})
    chk.cov["program_cases"] = len(cases)
    chk.cov["evaluations"] += len(cases)
    chk.cov["distinct_nontrivial"] += len(set(snips))
    chk.cov["traces_validated_against_impl"] += len(cases)
    chk.sample({"source": snips[5], "accept": cases[5]["accept"]})


def replay(path):
    print(json.dumps(json.load(open(path))["detail"], indent=1))
    return 1
