"""C05 - names resolve to the innermost visible binding; scopes end where they end.

spec/Scopes.tla enumerates event-sequence programs and prescribes the resolution of every
reference; each program is lowered by the real front end (hir::index + hir::lower) and the
resolution recorded in hir::Bodies is compared, reference by reference.
"""
import json
import os

import common
from common import log

HEADER = ["a :: 90;", "o :: 5;", "f :: (b: i32) {"]
FIRST = len(HEADER) + 1      # line of event 1
FLINE = len(HEADER)          # line of f's header (its parameter b)


def render(evs):
    lines = list(HEADER)
    for e in evs:
        t, n = e["t"], e["n"]
        if t == "EB":
            lines.append("{")
        elif t == "XB":
            lines.append("}")
        elif t == "Def":
            lines.append("%s := 1;" % n)
        elif t == "Ref":
            lines.append("%s;" % n)
        elif t == "SwO":
            lines.append("switch %s in o { i32 => {" % n)
        elif t == "Sep":
            lines.append("}, _ => {")
        elif t == "SwC":
            lines.append("}, }")
        elif t == "LamO":
            lines.append("l := (%s) {" % (("%s: i32" % n) if n else ""))
        elif t == "LamC":
            lines.append("};")
        elif t == "CtO":
            lines.append("comptime {")
        elif t == "CtC":
            lines.append("};")
    lines.append("}")
    return "\n".join(lines) + "\n"


def expected(r):
    """(P) resolution -> the record the harness should produce for that line (None = undefined)"""
    k = r["r"]["k"]
    line = FIRST + r["at"] - 1
    if k == "local":
        return {"line": line, "k": "local", "tline": FIRST + r["r"]["pos"] - 1}
    if k == "arm":
        return {"line": line, "k": "arm", "tline": FIRST + r["r"]["pos"] - 1, "dflt": r["r"]["dflt"]}
    if k == "param":
        pos = r["r"]["pos"]
        return {"line": line, "k": "param", "tline": FLINE if pos == 0 else FIRST + pos - 1}
    if k == "global":
        return {"line": line, "k": "global", "name": "a"}
    if k == "prim":
        return {"line": line, "k": "prim"}
    return None


def short(evs):
    return " ".join(e["t"] + ("(%s)" % e["n"] if e["n"] != "" and e["t"] != "Sep" else "")
                    for e in evs)


def run(chk):
    cfg = "Scopes_q.cfg" if chk.tier == "quick" else "Scopes_t.cfg"
    res = common.run_tlc("Scopes", cfg, chk.wd, workers=8, timeout=3000, out_name="enum.out")
    chk.require_tlc_ok("Scopes.tla enumeration + static semantics", res)
    tin = os.path.join(chk.wd, "progs.in")
    cases = []
    with open(tin, "w") as f:
        for c in common.tlc_lines(res.out, "REPLAY"):
            cases.append(c)
            f.write(json.dumps(render(c["evs"])) + "\n")
    os.remove(res.out)
    tout = os.path.join(chk.wd, "resolved.ndjson")
    common.harness(["resolve", "--in", tin, "--out", tout])
    n = 0
    for c, obs in zip(cases, common.read_ndjson(tout)):
        n += 1
        ref_lines = {FIRST + r["at"] - 1 for r in c["res"]}
        if obs["panic"]:
            chk.violation({"kind": "lower-panic", "prog": short(c["evs"])},
                          {"program": short(c["evs"]), "source": render(c["evs"]),
                           "panic": obs["panic"]})
            continue
        got = {}
        for r in obs["refs"]:
            if r["line"] in ref_lines:
                got.setdefault(r["line"], []).append(r)
        undef = {d["line"] for d in obs["diags"] if d["kind"] == "UndefinedRef"}
        for r in c["res"]:
            line = FIRST + r["at"] - 1
            exp = expected(r)
            g = got.get(line, [])
            if exp is None:
                ok = (not g) and line in undef
            else:
                ok = g == [exp] and line not in undef
            if not ok:
                chk.violation(
                    {"kind": "resolution", "prog": short(c["evs"]), "at": r["at"]},
                    {"program": short(c["evs"]), "source": render(c["evs"]), "line": line,
                     "name": r["n"], "expected": exp if exp else "undefined (UndefinedRef diagnostic)",
                     "observed": g if g else ("UndefinedRef" if line in undef else "nothing"),
                     "how": "hir::index + hir::lower on `source`; Bodies expression at `line`"})
                break
        if n in (50, 3000, 9000):
            chk.sample({"program": short(c["evs"]), "expected": [expected(r) for r in c["res"]]})
    chk.cov["traces_validated_against_impl"] = n
    chk.cov["evaluations"] = n
    chk.cov["distinct_nontrivial"] = n
    chk.cov["exhaustive"] = True
    chk.cov["rule"] = ("every complete event sequence of Scopes.tla within the cfg bound that "
                       "contains a reference; one lowered program each; all references compared")


def replay(path):
    v = json.load(open(path))
    print(v["detail"]["source"])
    print("expected:", v["detail"]["expected"], "observed:", v["detail"]["observed"])
    return 1
