"""C23 - parsing is total, terminating and lossless.  spec/ParserObs.tla."""
import json
import os
import random

import common
import corpus

TOK12 = ["a", "1", ".", "(", ")", "[", "]", "{", "}", ",", ";", ":"]
TOK16 = TOK12 + ["=", "=>", "switch", "if"]
TOK8 = ["(", ")", "[", "]", "{", "}", ".", ","]
# keyword-heavy sets: declarations and control flow nested inside constructs that pass a recovery
# set down (type annotations, parameters, casts, conditions, switch arms)
TOKK1 = [".", "(", ")", "struct", "enum", "{", "}", "if", "else", "a", ":", "=", ","]
TOKK2 = ["a", "[", "]", "switch", "=>", "while", "comptime", "distinct", "{", "}", "(", ")", ".",
         "in", "`"]


def validate(chk, name, trace, expect_n, describe):
    res = common.run_tlc("ParserObs", "ParserObs.cfg", chk.wd, workers=1, timeout=3000,
                         env={"TRACE": trace, "EXPECT_N": str(expect_n)}, out_name=name + ".out",
                         xmx="12g")
    chk.require_tlc_ok("ParserObs.tla on " + name, res)
    bad = list(common.tlc_lines(res.out, "BAD"))
    chk.cov["traces_validated_against_impl"] += res.distinct - 1
    if bad:
        recs = list(common.read_ndjson(trace))
        for b in bad:
            r = recs[b["idx"] - 1]
            text = describe(r)
            chk.violation({"kind": "parse", "why": b["why"], "text": text[:200]},
                          {"input": text, "why": b["why"], "repl": r.get("repl"),
                           "panic": r.get("panic"), "nodes": r.get("nodes"), "nerr": r.get("nerr"),
                           "how": "parser::parse_source_file / parse_repl_line (lexer::lex(input))"})
    return res


def enum(chk, name, toks, maxlen, full):
    n = sum(len(toks) ** k for k in range(maxlen + 1))
    out = os.path.join(chk.wd, name + ".ndjson")
    args = ["parse-enum", "--tokens", json.dumps(toks), "--maxlen", str(maxlen), "--out", out,
            "--par", "12"]
    if full:
        args.append("--full")
    common.harness(args)
    return out, n


def run(chk):
    def d12(r):
        return " ".join(TOK12[k] for k in r.get("seq", []))
    extra = [("k1", TOKK1), ("k2", TOKK2)]
    klen = 4 if chk.tier == "quick" else 5
    ktotal = 0
    for name, toks in extra:
        ko, kn = enum(chk, name, toks, klen, False)
        validate(chk, name, ko, kn, lambda r, toks=toks: " ".join(toks[k] for k in r.get("seq", [])))
        os.remove(ko)
        ktotal += kn
    if chk.tier == "quick":
        out, n = enum(chk, "e12", TOK12, 4, True)
        validate(chk, "e12", out, n, d12)
        total = n
    else:
        out, n = enum(chk, "e12", TOK12, 5, False)
        validate(chk, "e12", out, n, d12)
        total = n
        out2, n2 = enum(chk, "e16", TOK16, 4, False)
        validate(chk, "e16", out2, n2, lambda r: " ".join(TOK16[k] for k in r.get("seq", [])))
        out3, n3 = enum(chk, "e8", TOK8, 6, False)
        validate(chk, "e8", out3, n3, lambda r: " ".join(TOK8[k] for k in r.get("seq", [])))
        total += n2 + n3
        os.remove(out2)
        os.remove(out3)
    for k, r in enumerate(common.read_ndjson(out)):
        if k in (5000, 30001):
            chk.sample({"input": d12(r), "repl": r["repl"], "nodes": r["nodes"], "errors": r["errs"]})
    os.remove(out)
    chk.cov["exhaustive"] = True
    # corpus, mutations, soups, deep nesting, 64 KiB
    rng = random.Random(chk.seed + 23)
    texts = [t for _, t in corpus.all_texts()]
    nm = 1500 if chk.tier == "quick" else 40000
    texts += [t for _, t in corpus.mutant_stream(chk.seed + 24, nm)]
    for kind in range(6):
        texts.append(corpus.nested(200, kind))
    texts.append(corpus.token_soup(rng, 16000)[:65536])
    texts.append((corpus.all_texts()[0][1] * 40)[:65536])
    tin = os.path.join(chk.wd, "texts.in")
    with open(tin, "w") as f:
        for t in texts:
            f.write(json.dumps(t[:65536]) + "\n")
    tout = os.path.join(chk.wd, "texts.ndjson")
    common.harness(["parse-file", "--in", tin, "--out", tout, "--par", "12"])
    validate(chk, "texts", tout, 0, lambda r: texts[r["idx"]])
    total += ktotal
    chk.cov["evaluations"] = 2 * (total + len(texts))
    chk.cov["distinct_nontrivial"] = total + len(set(texts))
    chk.cov["rule"] = ("every token sequence of the enumerated spaces rendered with single spaces "
                       "(count asserted by TLC), parsed as source file and as REPL line in child "
                       "processes with stall detection; plus corpus, mutants, depth-200 nesting and "
                       "64 KiB inputs")


def replay(path):
    v = json.load(open(path))
    print(json.dumps(v["detail"], indent=1))
    return 1
