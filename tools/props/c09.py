"""C09 - literals denote exactly their written values or are rejected.

spec/Literals.tla defines the value of every spelling (Horner on byte sequences), the fits
relation and the escape table; spec/LiteralsMC.tla enumerates boundary values x spellings x use
sites (TLC's state graph).  Each case is given to the real front end (accepted?) and, when
accepted, compiled and run (stored bytes); TLC validates every observation (TraceLiterals.tla).
"""
import json
import os

import common
from common import log
from props import c08

HEXD = "0123456789abcdef"


def ity(t):
    if t["p"]:
        return "isize" if t["s"] else "usize"
    return ("i" if t["s"] else "u") + str(8 * t["w"])


INT_TYS = [{"w": w, "s": s, "p": False} for w in (1, 2, 4, 8) for s in (True, False)] + \
          [{"w": 8, "s": s, "p": True} for s in (True, False)]

PRELUDE = c08.prelude() + """meta_to_raw :: (ty: type) -> u32 #builtin("meta_type_to_u32");
show_any :: (v: any) {
    A :: struct { ty: type, data: rawptr };
    a := (^A.(rawptr.(^v)))^;
    raw := meta_to_raw(a.ty);
    sz := usize.(raw & 31);
    emit(a.data, sz); putchar(32); emit_u8(u8.(sz)); putchar(32); emit_u8(u8.((raw >> 9) & 1)); nl();
}
""" + "\n".join("show_%s :: (x: %s) { emit(^x, %d); nl(); }" % (ity(t), ity(t), t["w"]) for t in INT_TYS) + "\n"


def spell(sp, upper=False):
    if sp["base"] == 10:
        s = "".join("_" if d == 16 else str(d) for d in sp["ds"])
        if sp["ex"]:
            s += ("E" if upper else "e") + "".join(str(d) for d in sp["ex"])
        return s
    ds = "".join(HEXD[d] for d in sp["ds"])
    if sp["base"] == 16:
        return "0x" + (ds.upper() if upper else ds)
    return "0b" + ds


def text_of(ps):
    return "".join(("\\" if p["esc"] else "") + chr(p["ch"]) for p in ps)


def snippet(n, c, upper):
    """(top-level text, emits_one_line)"""
    k = c["k"]
    if k == "int":
        lit = spell(c["sp"], upper)
        site = c["site"]
        if site == "ann":
            return "k%d :: () { x : %s = %s; emit(^x, %d); nl(); }" % (n, ity(c["t"]), lit, c["t"]["w"])
        T, w = ity(c["t"]), c["t"]["w"]
        if site == "annc":
            return "k%d :: () { x : %s : %s; y := x; emit(^y, %d); nl(); }" % (n, T, lit, w)
        if site == "gann":
            return "G%d : %s : %s;\nk%d :: () { y := G%d; emit(^y, %d); nl(); }" % (n, T, lit, n, n, w)
        if site == "ret":
            return "r%d :: () -> %s { %s }\nk%d :: () { y := r%d(); emit(^y, %d); nl(); }" % (n, T, lit, n, n, w)
        if site == "field":
            return "S%d :: struct { g: u8, f: %s };\nk%d :: () { s := S%d.{ g = 1, f = %s }; emit(^s.f, %d); nl(); }" % (n, T, n, n, lit, w)
        if site == "elem":
            return "k%d :: () { a : [2]%s = .[%s, 1]; emit(^a[0], %d); nl(); }" % (n, T, lit, w)
        if site == "asg":
            return "k%d :: () { x : %s = 0; x = %s; emit(^x, %d); nl(); }" % (n, T, lit, w)
        if site == "arith":
            return "k%d :: () { t : %s = 1; r := t * %s; emit(^r, %d); nl(); }" % (n, ity(c["t"]), lit, c["t"]["w"])
        if site == "arg":
            return "k%d :: () { show_%s(%s); }" % (n, ity(c["t"]), lit)
        if site == "local":
            return "k%d :: () { x := %s; show_any(x); }" % (n, lit)
        if site == "global":
            return "G%d :: %s;\nk%d :: () { show_any(G%d); }" % (n, lit, n, n)
    if k == "char":
        return "k%d :: () { c := '%s'; emit(^c, 1); nl(); }" % (n, text_of(c["ps"]))
    if k == "str":
        return "k%d :: () { s := \"%s\"; emit(rawptr.(s), %d); nl(); }" % (n, text_of(c["ps"]), len(c["ps"]) + 1)
    if k == "float":
        lit = "".join("_" if d == 16 else str(d) for d in c["ip"]) + "." + "".join(str(d) for d in c["fp"])
        if c["ex"]:
            lit += "e" + ("-" if c["exneg"] else "") + "".join(str(d) for d in c["ex"])
        t = "f32" if c["fw"] == 4 else "f64"
        return "k%d :: () { f : %s = %s; emit(^f, %d); nl(); }" % (n, t, lit, c["fw"])
    raise ValueError(k)


def describe(c):
    return snippet(0, c, False)


def run(chk):
    cfg = "LiteralsMC_q.cfg" if chk.tier == "quick" else "LiteralsMC_t.cfg"
    res = common.run_tlc("LiteralsMC", cfg, chk.wd, workers=8, timeout=3000, out_name="enum.out")
    chk.require_tlc_ok("LiteralsMC.tla enumeration (spellings denote their values)", res)
    seen, cases = set(), []
    for c in common.tlc_lines(res.out, "CASE"):
        key = json.dumps(c, sort_keys=True)
        if key not in seen:
            seen.add(key)
            cases.append(c)
    os.remove(res.out)
    cases.sort(key=lambda c: json.dumps(c, sort_keys=True))
    upper = [(n % 3 == 1) for n in range(len(cases))]
    snips = [snippet(n, c, upper[n]) for n, c in enumerate(cases)]
    verdicts = common.front_end_verdicts(chk, snips, PRELUDE, "lit", per=250)
    # run the accepted ones
    acc_idx = [n for n, v in enumerate(verdicts) if v["accepted"]]

    def program(ns):
        return PRELUDE + "\n".join(snips[n] for n in ns) + "\nmain :: () -> i32 {\n" + \
            "\n".join("    k%d();" % n for n in ns) + "\n    0\n}\n"
    results = common.run_case_programs(chk, acc_idx, program, "lit", per=250)
    out_of = dict(zip(acc_idx, results))
    recs, idx = [], []
    notrun = {}
    for n, (c, v) in enumerate(zip(cases, verdicts)):
        if v["crash"]:
            chk.violation({"kind": "front-end-crash", "site": c.get("site", c["k"])},
                          {"case": c, "source": snips[n], "crash": v["crash"]})
            continue
        obs = {"acc": v["accepted"], "o": [], "sz": 0, "sg": False}
        if v["accepted"]:
            line, why = out_of[n]
            if line is None:
                notrun.setdefault(why[:80], []).append(n)
                continue
            try:
                parts = line.strip().split(" ")
                obs["o"] = list(bytes.fromhex(parts[0]))
                if len(parts) == 3:
                    obs["sz"] = int(parts[1], 16)
                    obs["sg"] = parts[2] == "01"
            except ValueError:
                obs["o"] = [256]
        recs.append({"c": c, "obs": obs})
        idx.append(n)
    bad = common.tlc_validate_sharded(chk, "TraceLiterals", "TraceLiterals.cfg", recs, "lit", shards=6)
    for (k, b) in bad:
        n = idx[k]
        c = cases[n]
        obs = recs[k]["obs"]
        want = b.get("want", {})
        if c["k"] == "int":
            kind = "acceptance" if (c["site"] not in ("local", "global") and want.get("accept") != obs["acc"]) else "value"
            sig = {"kind": kind, "site": c["site"], "w": c["t"]["w"], "s": c["t"]["s"], "p": c["t"]["p"],
                   "accepted": obs["acc"]}
        else:
            sig = {"kind": c["k"], "accepted": obs["acc"]}
        chk.violation(sig, {"source": snips[n], "case": c, "compiler_accepted": obs["acc"],
                            "diagnostics": verdicts[n]["kinds"], "observed_bytes": obs["o"],
                            "observed_type": {"size": obs["sz"], "signed": obs["sg"]} if obs["sz"] else None,
                            "prescribed": want,
                            "how": "front end for acceptance; executable prints the stored bytes (untyped sites: "
                                   "the value is passed as `any` and printed with its run-time size/sign)"})
    for n in (3, len(recs) // 2, len(recs) - 3):
        if 0 <= n < len(recs):
            chk.sample({"source": snips[idx[n]], "observed": recs[n]["obs"]})
    chk.cov["evaluations"] = len(cases)
    chk.cov["distinct_nontrivial"] = len(set(snips))
    chk.cov["accepted"] = len(acc_idx)
    chk.cov["rejected"] = len(cases) - len(acc_idx)
    chk.cov["not_run"] = {k: len(v) for k, v in notrun.items()}
    chk.cov["exhaustive"] = True
    chk.cov["rule"] = ("every case of LiteralsMC.tla: boundary values (MAX-1, MAX, MAX+1 of each integer type, "
                       "2^31, 2^32, 2^63, 2^64-1, powers of ten) x spellings (decimal, grouped with _, hex, binary, "
                       "e-exponents) x use sites (annotated mutable / immutable local, annotated global, function "
                       "result, struct field, array element, assignment, in arithmetic with a typed operand, argument, "
                       "unannotated local / global) x 12 integer types; every char / string escape; float "
                       "literals with exactly determined values")
    if notrun:
        log("note: accepted but not run: %s" % {k: len(v) for k, v in notrun.items()})


def replay(path):
    v = json.load(open(path))
    print(PRELUDE)
    print(v["detail"]["source"])
    print("main :: () { k0(); }")
    print(json.dumps({k: v["detail"][k] for k in ("compiler_accepted", "observed_bytes", "prescribed")}))
    return 1
