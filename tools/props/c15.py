"""C15 - only const values are used as types, sizes, discriminants and comptime args.

spec/Constness.tla: an expression in a const position is a chain of bindings (:: local, := local,
global, imported global) ending in a base (literal, comptime block, comptime parameter, extern
global, arithmetic, call, member); it is const iff the base is a literal / comptime block /
comptime parameter and every binding is immutable.  TLC enumerates chains x bases x positions x
sort x declaration order and checks that constness is never regained by adding a binding; every
case is one function given to the real front end (accepted iff const) and accepted array lengths
are read back from the built program.
"""
import json
import os

import common
from common import log
from props import c08

PRE = c08.prelude() + """lib :: #import("lib.capy");
EXT : usize : extern;
EXT8 : u8 : extern;
Cfg :: struct { n: usize, m: u8 };
three :: () -> usize { 3 }
three8 :: () -> u8 { 3 }
ret_ty :: () -> type { i32 }
take :: (comptime n: usize) -> usize { n }
zero :: (comptime T: type) -> usize { 0 }
"""


def base_expr(c):
    b, so = c["base"], c["sort"]
    if so == "type":
        return {"lit": "i32", "ct": "comptime { i32 }", "cp": "T", "call": "ret_ty()"}[b]
    if c["pos"] == "disc":
        return {"lit": "3", "ct": "comptime { 2 + 2 }", "cp": "M", "ex": "EXT8", "ar": "1 + 2", "call": "three8()", "mem": "cfg.m"}[b]
    return {"lit": "3", "ct": "comptime { 2 + 2 }", "cp": "N", "ex": "EXT", "ar": "1 + 2", "call": "three()", "mem": "cfg.n"}[b]


def render(n, c):
    """(main.capy snippet, lib.capy lines)"""
    links = c["links"]
    so = c["sort"]
    ann = "" if so == "type" else (" u8" if c["pos"] == "disc" else " usize")      # a discriminant is a u8
    pre_fn, post_fn, body, lib = [], [], [], []
    if c["base"] == "mem":
        body.append("    cfg :: Cfg.{ n = 3, m = 3 };")
    # names of the bindings, outermost first
    names = []
    for j, l in enumerate(links):
        if l in ("cl", "ml"):
            names.append("n%d_%d" % (n, j))
        elif l == "g":
            names.append("g%d_%d" % (n, j))
        else:
            names.append("lib.h%d_%d" % (n, j))
    vals = names[1:] + [base_expr(c)]
    # innermost binding first, so that locals are declared before they are used
    for j in reversed(range(len(links))):
        l, v = links[j], vals[j]
        if l == "gi" and v.startswith("lib."):
            v = v[4:]              # inside lib.capy
        imm = "%s :%s : %s;" if ann else "%s%s :: %s;"
        mut = "%s :%s = %s;" if ann else "%s%s := %s;"
        if l == "cl":
            body.append("    " + imm % (names[j], ann, v))
        elif l == "ml":
            body.append("    " + mut % (names[j], ann, v))
        elif l == "g":
            (post_fn if c["late"] else pre_fn).append(imm % (names[j], ann, v))
        else:
            lib.append(imm % (names[j][4:], ann, v))
    e = names[0] if names else base_expr(c)
    pos = c["pos"]
    if pos == "ty":
        body.append("    x : %s = 5;" % e)
    elif pos == "len":
        body.append("    a : [%s]u8;" % e)
        body.append("    ln := a.len; emit(^ln, 8); nl();")
    elif pos == "disc":
        body.append("    En :: enum { A | %s, B };" % e)
    else:
        body.append("    r := %s(%s);" % ("zero" if so == "type" else "take", e))
    # comptime parameters first, or after a run-time parameter (their position among all
    # parameters then differs from their position among the comptime ones); distinct values
    late_cp = n % 2 == 1
    head = ("k%d :: (%scomptime N: usize, comptime T: type, comptime M: u8) {" % (n, "tag: i32, " if late_cp else "")) \
        if c["base"] == "cp" else "k%d :: () {" % n
    # a function with comptime parameters is only checked when it is instantiated
    inst = ["c%d :: () { k%d(%s); }" % (n, n, cp_args(n))] if c["base"] == "cp" else []
    return "\n".join(pre_fn + [head] + body + ["}"] + inst + post_fn), lib


def cp_args(n):
    return ("9, " if n % 2 == 1 else "") + "5, i32, 6"


def short(c):
    return "%s in %s position (%s)%s" % (" -> ".join(c["links"] + [c["base"]]), c["pos"], c["sort"], ", global defined later" if c["late"] else "")


def run(chk):
    cfg = "Constness_q.cfg" if chk.tier == "quick" else "Constness_t.cfg"
    res = common.run_tlc("Constness", cfg, chk.wd, workers=4, timeout=1800, out_name="enum.out")
    chk.require_tlc_ok("Constness.tla (constness is never regained; verdict per chain)", res)
    seen, cases = set(), []
    for x in common.tlc_lines(res.out, "CASE"):
        kk = json.dumps(x["c"], sort_keys=True)
        if kk not in seen:
            seen.add(kk)
            cases.append(x)
    os.remove(res.out)
    cases.sort(key=lambda x: json.dumps(x["c"], sort_keys=True))
    # an imported global that refers back to a global of the importing file needs that file's text:
    # those chains are left out of the batches (counted)
    def ok(c):
        ls = c["links"]
        return not any(ls[j] == "gi" and ls[j + 1] == "g" for j in range(len(ls) - 1))
    skipped = [x for x in cases if not ok(x["c"])]
    cases = [x for x in cases if ok(x["c"])]
    snips = []
    lib = ["EXT : usize : extern;", "three :: () -> usize { 3 }", "ret_ty :: () -> type { i32 }",
           "EXT8 : u8 : extern;", "three8 :: () -> u8 { 3 }"]
    owner = {}
    for n, x in enumerate(cases):
        s, l = render(n, x["c"])
        snips.append(s)
        for line in l:
            lib.append(line)
            owner[len(lib)] = n
    libtext = "\n".join(lib) + "\n"
    verdicts = common.front_end_verdicts(chk, snips, PRE, "cst", per=120, extra_files={"lib.capy": libtext},
                                         extra_lines={"lib.capy": owner})
    runnable = []
    for n, (x, v) in enumerate(zip(cases, verdicts)):
        c = x["c"]
        if v["crash"]:
            from props import c06
            cr = v["crash"] if isinstance(v["crash"], dict) else {"msg": str(v["crash"]), "loc": ""}
            chk.violation({"kind": "front-end-crash", "site": c06.site_of(cr), "msg": c06.norm_msg(cr.get("msg", ""))},
                          {"case": short(c), "source": snips[n], "crash": v["crash"], "const_by_the_rule": x["const"],
                           "note": "a const position must be answered with acceptance or a not-const diagnostic"})
            continue
        if v["accepted"] != x["const"]:
            chk.violation({"kind": "verdict", "pos": c["pos"], "base": c["base"], "links": "-".join(c["links"]),
                           "sort": c["sort"], "accepted": v["accepted"]},
                          {"case": short(c), "source": snips[n], "const_by_the_rule": x["const"],
                           "compiler_accepted": v["accepted"], "diagnostics": v["kinds"],
                           "how": "front end (hir_ty) on the function; lib.capy holds the imported globals"})
            continue
        if x["const"] and c["pos"] == "len":
            runnable.append(n)

    def program(ns):
        calls = "\n".join("    k%d(%s);" % (n, cp_args(n) if cases[n]["c"]["base"] == "cp" else "") for n in ns)
        return PRE + "\n".join(snips[n] for n in ns) + "\nmain :: () -> i32 {\n" + calls + "\n    0\n}\n"
    nrun = 0
    if runnable:
        keep = set(runnable)
        runlib = "\n".join(line for k, line in enumerate(lib, start=1) if k <= 5 or owner.get(k) in keep) + "\n"
        results = common.run_case_programs(chk, runnable, program, "cstrun", per=60, extra_files={"lib.capy": runlib})
        for n, (line, why) in zip(runnable, results):
            x = cases[n]
            if line is None:
                chk.violation({"kind": "not-built", "base": x["c"]["base"], "why": why[:50]},
                              {"case": short(x["c"]), "source": snips[n], "why": why})
                continue
            nrun += 1
            got = int.from_bytes(bytes.fromhex(line.strip()), "little") if line.strip() else -1
            if got != x["value"]:
                chk.violation({"kind": "length", "base": x["c"]["base"], "links": "-".join(x["c"]["links"])},
                              {"case": short(x["c"]), "source": snips[n], "prescribed_length": x["value"],
                               "observed_length": got})
    for n in (3, len(cases) // 2, len(cases) - 4):
        chk.sample({"case": short(cases[n]["c"]), "const": cases[n]["const"], "source": snips[n]})
    chk.cov["traces_validated_against_impl"] = len(cases)
    chk.cov["evaluations"] = len(cases)
    chk.cov["distinct_nontrivial"] = len(set(snips))
    chk.cov["accepted_lengths_read_back"] = nrun
    chk.cov["chains_left_out"] = len(skipped)
    chk.cov["exhaustive"] = True
    chk.cov["rule"] = ("every case of Constness.tla: chains of up to MaxLinks bindings (:: local, := local, global, "
                       "imported global) over 7 bases (literal, comptime block, comptime parameter, extern global, "
                       "arithmetic, call, struct member) x 4 positions (type annotation, array length, enum "
                       "discriminant, comptime argument of type / integer sort) x global defined before / after its use")


def replay(path):
    v = json.load(open(path))
    print(PRE)
    print(v["detail"]["source"])
    print(json.dumps({k: v["detail"].get(k) for k in ("case", "const_by_the_rule", "compiler_accepted", "diagnostics")}))
    return 1
