"""C01 - well-typed programs are accepted and run exactly as the semantics prescribe.

spec/CapySem.tla is a definitional interpreter (in TLA+, over JSON abstract syntax) for the
supported fragment; tools/capygen.py generates seeded well-typed, determinate programs in it.
Every program is rendered to Capy, compiled by the real pipeline, linked and executed; TLC
validates each record (program, accepted, printed bytes, exit status, how it ended) against the
interpreter (spec/TraceSem.tla).
"""
import copy
import json
import os

import capygen
import common
from common import log
from props import c08


def rename(p, k):
    """prefix the function names of program p with p<k>_ (programs are batched into one executable)"""
    p = copy.deepcopy(p)
    names = {f["name"] for f in p["fns"]}
    gnames = {g["n"] for g in p.get("globs", [])}
    inlib = {f["name"] for f in p["fns"] if f.get("file") == "lib"}

    def walk(x):
        if isinstance(x, dict):
            if x.get("e") in ("call", "fnref") and x["f"] in names:
                x["f"] = "p%d_%s" % (k, x["f"])
            if x.get("e") == "var" and x["n"] in gnames:
                x["n"] = "p%d_%s" % (k, x["n"])
            for v in x.values():
                walk(v)
        elif isinstance(x, list):
            for v in x:
                walk(v)
    # a function of the imported file lib.capy is called as lib.<name> from the main file
    for f in p["fns"]:
        if f.get("file") != "lib":
            def mark(x):
                if isinstance(x, dict):
                    if x.get("e") in ("call", "fnref") and x["f"] in inlib:
                        x["qual"] = "lib."
                    for v in x.values():
                        mark(v)
                elif isinstance(x, list):
                    for v in x:
                        mark(v)
            mark(f)
    walk(p)
    for f in p["fns"]:
        f["name"] = "p%d_%s" % (k, f["name"])
    for g in p.get("globs", []):
        g["n"] = "p%d_%s" % (k, g["n"])
    return p


def parse_out(text):
    """stdout of one program -> (list of byte lists, fault kind or None)"""
    fault = None
    if "entered unreachable code" in text:
        head, _, tail = text.partition("\n\nin ")
        fault = "index out of bounds" if "index out of bounds" in tail else "other: " + tail[:80]
        text = head
    out = []
    for line in text.split("\n"):
        line = line.strip()
        if not line:
            continue
        try:
            out.append(list(bytes.fromhex(line)))
        except ValueError:
            out.append([999])
    return out, fault


def programs(chk):
    n = 360 if chk.tier == "quick" else 5000
    nf = 40 if chk.tier == "quick" else 500
    progs = []
    for k in range(n):
        g = capygen.Gen(chk.seed * 100003 + k, size=10 + (k % 14))
        progs.append((g.program(), False))
    for k in range(nf):
        g = capygen.Gen(chk.seed * 100003 + 50000 + k, size=6 + (k % 6), fault=True)
        progs.append((g.program(), True))
    return progs


def run(chk):
    run_programs(chk, programs(chk), "sem")
    chk.cov["rule"] = ("seeded programs of tools/capygen.py (integers i16/i32/u8/u32/i64 with wrapping arithmetic, "
                       "shifts, casts, bool with short-circuit operators, arrays, nested structs, functions, "
                       "if / while / loop, labeled blocks with values, break / continue with and without labels, "
                       "early return, defer, copy semantics of aggregates, optionals / enums with switch, #unwrap, "
                       "#is_variant, .try, error unions, chars, slices, function values and local lambdas, pointers to variables / fields / elements with stores through them "
                       "in the same frame and from callees; some end in an out-of-range index); "
                       "each one executed and validated against the TLA+ interpreter")


def run_programs(chk, progs, tag):
    R = capygen.Render
    pre = c08.prelude() + capygen.PRELUDE_TYPES
    plain = [k for k, (p, f) in enumerate(progs) if not f]
    faulting = [k for k, (p, f) in enumerate(progs) if f]
    texts, libtexts = {}, {}
    for k, (p, f) in enumerate(progs):
        q = rename(p, k)
        texts[k] = "\n".join([R().glob(g) for g in q.get("globs", [])] +
                             [R().fn(fn) for fn in q["fns"] if not fn.get("local") and fn.get("file") != "lib"])
        libtexts[k] = "\n".join(R().fn(fn) for fn in q["fns"] if fn.get("file") == "lib")

    def files_of(ks, main_text):
        lib = "\n".join(libtexts[k] for k in ks if libtexts[k])
        if not lib:
            return {"main.capy": main_text}
        return {"main.capy": "lib :: #import(\"lib.capy\");\n" + main_text, "lib.capy": lib + "\n"}

    def batch_src(ks):
        calls = "\n".join("    { s_ := p%d_main(); putchar(35); emit(^s_, 4); nl(); }" % k for k in ks)
        return files_of(ks, pre + "\n".join(texts[k] for k in ks) + "\nmain :: () -> i32 {\n" + calls + "\n    0\n}\n")
    obs = {}
    todo = [plain[i:i + 12] for i in range(0, len(plain), 12)]
    rnd = 0
    while todo:
        jobs = [{"id": "b%d" % bi, "files": batch_src(ks), "run": True, "timeout_ms": 30000}
                for bi, ks in enumerate(todo)]
        res = common.run_batch(jobs, chk.wd, "%s_r%d" % (tag, rnd))
        nxt = []
        for ks, r in zip(todo, res):
            ok = r.get("run") and r["run"].get("status") == 0 and not r["has_errors"] and not r.get("panic")
            if ok:
                chunks = r["run"]["stdout"].split("#")
                # chunk j = output of program j, followed (in chunk j+1's head) by its status line
                for j, k in enumerate(ks):
                    body = chunks[j] if j == 0 else chunks[j].split("\n", 1)[1] if "\n" in chunks[j] else ""
                    st_line = chunks[j + 1].split("\n", 1)[0] if j + 1 < len(chunks) else ""
                    out, fault = parse_out(body)
                    try:
                        status = list(bytes.fromhex(st_line.strip()))[0]
                    except (ValueError, IndexError):
                        status = -2
                    obs[k] = {"acc": True, "out": out, "status": status, "end": "exit"}
            elif len(ks) == 1:
                k = ks[0]
                if r["has_errors"]:
                    obs[k] = {"acc": False, "out": [], "status": -3, "end": "rejected: " + ",".join(
                        sorted({d["kind"] for d in r["diags"] if d["sev"] == "error"}))}
                elif r.get("panic") or r.get("cranelift_err") or r.get("crash"):
                    obs[k] = {"acc": False, "out": [], "status": -4, "end": "compiler failed: %s" % (
                        (r.get("panic") or {}).get("msg", "")[:80] or r.get("cranelift_err", "")[:80] or r.get("crash"))}
                else:
                    out, fault = parse_out(r["run"]["stdout"].split("#")[0]) if r.get("run") else ([], None)
                    obs[k] = {"acc": True, "out": out, "status": (r.get("run") or {}).get("status") or -5,
                              "end": fault or "abnormal: %s" % json.dumps(r.get("run"))[:80]}
            else:
                h = max(1, len(ks) // 3)
                nxt += [ks[j:j + h] for j in range(0, len(ks), h)]
        todo = nxt
        rnd += 1
    # faulting programs: one executable each, main is the program's own main
    jobs = []
    for k in faulting:
        src = pre + texts[k] + "\nmain :: () -> i32 { p%d_main() }\n" % k
        jobs.append({"id": "f%d" % k, "files": files_of([k], src), "run": True, "timeout_ms": 30000})
    for k, r in zip(faulting, common.run_batch(jobs, chk.wd, tag + "_fault") if jobs else []):
        if r["has_errors"]:
            obs[k] = {"acc": False, "out": [], "status": -3, "end": "rejected: " + ",".join(
                sorted({d["kind"] for d in r["diags"] if d["sev"] == "error"}))}
        elif not r.get("run"):
            obs[k] = {"acc": False, "out": [], "status": -4, "end": "compiler failed: %s" % (
                (r.get("panic") or {}).get("msg", "")[:80] or r.get("cranelift_err", "")[:80] or r.get("crash"))}
        else:
            out, fault = parse_out(r["run"]["stdout"])
            st = r["run"].get("status")
            obs[k] = {"acc": True, "out": out, "status": st if st is not None else -6, "end": fault or "exit"}
    recs, idx = [], []
    for k, (p, f) in enumerate(progs):
        recs.append(dict(obs[k], p=capygen.strip(p)))
        idx.append(k)
    bad = common.tlc_validate_sharded(chk, "TraceSem", "TraceSem.cfg", recs, tag, shards=12, timeout=3000, per_shard=10)
    for (n, b) in bad:
        k = idx[n]
        o = obs[k]
        want = b.get("want", {})
        kind = "rejected" if not o["acc"] and o["end"].startswith("rejected") else \
            ("compiler-failed" if not o["acc"] else ("fault" if (o["end"] != want.get("end")) else
                                                     ("status" if o["out"] == want.get("out") else "output")))
        chk.violation({"kind": kind, "end": o["end"][:60] if kind != "output" else ""},
                      {"source": R().program(progs[k][0]),
                       "observed": o, "prescribed": want,
                       "how": "every print is one line of little-endian hex bytes; status = exit status"})
    for k in (0, len(progs) // 2, len(progs) - 1):
        chk.sample({"source": R().program(progs[k][0])[:1500], "observed": obs[k]})
    import collections
    hist = collections.Counter()

    def walk(x):
        if isinstance(x, dict):
            if "s" in x and isinstance(x["s"], str):
                hist["stmt:" + x["s"]] += 1
            if "e" in x and isinstance(x["e"], str):
                hist["expr:" + x["e"] + (":" + x["op"] if x["e"] in ("bin", "un") else "")] += 1
            for v in x.values():
                walk(v)
        elif isinstance(x, list):
            for v in x:
                walk(v)
    for r in recs:
        walk(r["p"])
    chk.cov["construct_counts"] = dict(sorted(hist.items()))
    chk.cov["evaluations"] = len(progs)
    chk.cov["distinct_nontrivial"] = len({json.dumps(r["p"], sort_keys=True) for r in recs})
    chk.cov["faulting_programs"] = len(faulting)


def replay(path):
    v = json.load(open(path))
    print(v["detail"]["source"])
    print(json.dumps({"observed": v["detail"]["observed"], "prescribed": v["detail"]["prescribed"]})[:3000])
    return 1
