"""C04 - a comptime block yields what the same code yields at run time.

spec/Comptime.tla: a two-phase machine (compile: the block is evaluated once, its side effect goes
to the compiler's output; run: the program observes the constant) over Memory.tla's value universe
plus char / str / type; invariants `same as run time` and `effect exactly once, at compile time`.
Every behaviour is replayed: the program prints the bytes of the comptime value (and of its
run-time twin), the harness records what the compiler itself printed while compiling.
"""
import json
import os

import common
from common import log
from props import c02, c08


def value_expr(N, t, tree):
    k = t["k"]
    if k == "char":
        return "'A'"
    if k == "str":
        return "\"hi\\n\""
    if k == "type":
        return "i32"
    return N.lit(t, tree)


def texpr(N, t):
    k = t["k"]
    if k in ("char", "str", "type"):
        return k
    return N.texpr(t)


def observe(t, var, size):
    k = t["k"]
    if k == "str":
        return "emit(rawptr.(%s), %d);" % (var, size)
    if k == "type":
        return "eq%s := %s == i32; emit(^eq%s, 1);" % (var, var, var)
    return "emit(^%s, %d);" % (var, size)


def render(N, n, c):
    t, form = c["t"], c["form"]
    T = texpr(N, t)
    v = value_expr(N, t, c["tree"])
    size = c["size"]
    pre, L = [], ["k%d :: () {" % n]
    blk = "{ v : %s = %s; v }" % (T, v)
    if form == "local":
        L.append("    x := comptime %s;" % blk)
    elif form == "global":
        pre.append("G%d :: comptime %s;" % (n, blk))
        L.append("    x := G%d;" % n)
    elif form == "nested":
        L.append("    x := comptime { w := comptime %s; w };" % blk)
    elif form == "viafn":
        pre.append("mk%d :: () -> %s { v : %s = %s; v }" % (n, T, T, v))
        L.append("    x := comptime { mk%d() };" % n)
    elif form == "effect":
        L.append("    x := comptime { putchar(5); v : %s = %s; v };" % (T, v))
    else:   # twin: the same block at run time
        L.append("    x := %s;" % blk)
    L.append("    %s nl();" % observe(t, "x", size))
    L.append("}")
    return "\n".join(pre + L)


def run(chk):
    cfg = "Comptime_q.cfg" if chk.tier == "quick" else "Comptime_t.cfg"
    res = common.run_tlc("Comptime", cfg, chk.wd, workers=8, timeout=3000, out_name="enum.out",
                         env={"PTR": "64", "LEVEL": "1", "TRACE": "none"})
    chk.require_tlc_ok("Comptime.tla (same as run time; effect exactly once at compile time)", res)
    seen, cases = set(), []
    for x in common.tlc_lines(res.out, "CASE"):
        kk = json.dumps([x["t"], x["form"], x["tree"]], sort_keys=True)
        if kk not in seen:
            seen.add(kk)
            cases.append(x)
    os.remove(res.out)
    cases.sort(key=lambda x: (x["form"], json.dumps(x["t"], sort_keys=True), json.dumps(x["tree"], sort_keys=True)))
    N = c02.Namer()
    fns = [render(N, n, c) for n, c in enumerate(cases)]
    pre = c08.prelude() + "\n".join(N.decls) + "\n"

    # one executable per case: the compiler's own output (comptime side effects) is per compilation
    def prog(n):
        return pre + fns[n] + "\nmain :: () -> i32 {\n    k%d();\n    0\n}\n" % n
    # group cases WITHOUT side effects into batches, compile effect cases one by one
    plain = [n for n, c in enumerate(cases) if c["form"] != "effect"]
    eff = [n for n, c in enumerate(cases) if c["form"] == "effect"]

    def program(ns):
        return pre + "\n".join(fns[n] for n in ns) + "\nmain :: () -> i32 {\n" + \
            "\n".join("    k%d();" % n for n in ns) + "\n    0\n}\n"
    results = dict(zip(plain, common.run_case_programs(chk, plain, program, "ct", per=40)))
    jobs = [{"id": "e%d" % n, "files": {"main.capy": prog(n)}, "run": True, "timeout_ms": 30000} for n in eff]
    ct_marks = {}
    for n, r in zip(eff, common.run_batch(jobs, chk.wd, "eff") if jobs else []):
        ok = r.get("run") and r["run"].get("status") == 0 and not r["has_errors"] and not r.get("panic")
        if ok:
            results[n] = (r["run"]["stdout"].split("\n")[0], "")
            ct_marks[n] = (r.get("compiler_stdout_markers", ""), r["run"]["stdout"])
        else:
            why = "rejected: %s" % sorted({d["kind"] for d in r["diags"] if d["sev"] == "error"}) if r["has_errors"] else (
                "panic: %s @ %s" % (r["panic"]["msg"][:60], r["panic"]["loc"][-60:]) if r.get("panic") else
                "cranelift: " + r.get("cranelift_err", "")[:60] if r.get("cranelift_err") else "run: %s" % json.dumps(r.get("run"))[:100])
            results[n] = (None, why)
    nrun = 0
    for n, c in enumerate(cases):
        line, why = results[n]
        desc = "%s of %s" % (c["form"], c02.sh(c["t"]) if c["t"]["k"] not in ("char", "str", "type") else c["t"]["k"])
        if line is None:
            chk.violation({"kind": "not-built", "form": c["form"], "ty": desc.split(" of ")[1][:40], "why": why[:60]},
                          {"case": desc, "source": fns[n], "why": why,
                           "note": "a comptime block of an accepted result type was rejected or the compiler failed"})
            continue
        nrun += 1
        try:
            obs = list(bytes.fromhex(line.strip()))
        except ValueError:
            obs = []
        want = c["image"]
        diffs = [k for k in range(len(want)) if want[k] != -1 and (k >= len(obs) or obs[k] != want[k])]
        if diffs:
            chk.violation({"kind": "value", "form": c["form"], "ty": desc.split(" of ")[1][:40]},
                          {"case": desc, "source": fns[n], "decls": N.decls, "prescribed_image": want,
                           "observed_image": obs, "differs_at": diffs[:16],
                           "how": "bytes of the value as observed by the built program; -1 = padding"})
        if n in ct_marks:
            marks, out = ct_marks[n]
            if marks.count("5") != 1 or "\x05" in out:
                chk.violation({"kind": "effect", "form": c["form"]},
                              {"case": desc, "source": fns[n], "compile_time_markers": marks,
                               "marker_in_program_output": "\x05" in out,
                               "prescribed": "the marker byte 5 exactly once in the compiler's output, never in the program's"})
    for n in (1, len(cases) // 2, len(cases) - 2):
        chk.sample({"case": "%s of %s" % (cases[n]["form"], json.dumps(cases[n]["t"])[:80]), "image": cases[n]["image"],
                    "observed": results[n][0]})
    chk.cov["traces_validated_against_impl"] = nrun
    chk.cov["evaluations"] = len(cases)
    chk.cov["distinct_nontrivial"] = len(set(fns))
    chk.cov["exhaustive"] = True
    chk.cov["rule"] = ("every behaviour of Comptime.tla: Memory.tla's value types (scalars, floats, bool, structs, "
                       "arrays, enums, optionals, error unions, all-bytes structs) and char / str / type x 2 values x "
                       "{local, global, nested, via a function, with a compile-time side effect, run-time twin}")


def replay(path):
    v = json.load(open(path))
    print("\n".join(v["detail"].get("decls", [])))
    print(v["detail"]["source"])
    print(json.dumps({k: v["detail"].get(k) for k in ("prescribed_image", "observed_image", "why", "compile_time_markers")}))
    return 1
