"""C18 - run-time reflection and type values describe the code actually generated.

spec/Reflect.tla prescribes, from Layout.tla's representation rules (C17), what core.meta must
report for every type of its universe, what address arithmetic on real values must show, and the
type-equality matrix (identity over pairwise different types).  One generated program reflects all
types at run time (a generic `desc` walking Type_Info), measures member / element addresses on
real memory, compares every pair of type values, wraps values into `any`, and evaluates
size_of / align_of / stride_of inside comptime blocks as well; its output is compared line by line.
"""
import json
import os

import common
from common import log

VN = "ABCDEF"


class Names:
    def __init__(self):
        self.names = {}
        self.decls = []

    def texpr(self, t):
        k = t["k"]
        if k == "int":
            if t["w"] == 255:
                return "isize" if t["s"] else "usize"
            return ("i" if t["s"] else "u") + str(t["w"])
        if k == "float":
            return "f%d" % t["w"]
        if k in ("bool", "char", "str", "void"):
            return k
        if k == "arr":
            return "[%d]%s" % (t["n"], self.texpr(t["sub"]))
        if k == "slice":
            return "[]" + self.texpr(t["sub"])
        if k == "ptr":
            return ("^mut " if t["m"] else "^") + self.texpr(t["sub"])
        if k == "opt":
            return "?" + self.texpr(t["sub"])
        if k == "eu":
            return "%s!%s" % (self.texpr(t["err"]), self.texpr(t["ok"]))
        kk = json.dumps(t, sort_keys=True)
        if kk not in self.names:
            if k == "enum":
                body = "enum { %s }" % ", ".join(
                    VN[i] if v["sub"]["k"] == "void" else "%s: %s" % (VN[i], self.texpr(v["sub"])) for i, v in enumerate(t["vs"]))
            elif k == "distinct":
                body = "distinct " + self.texpr(t["sub"])
            else:
                body = "struct { %s }" % ", ".join("%s: %s" % (m[0], self.texpr(m[1])) for m in t["ms"])
            name = "N%d" % len(self.names)
            self.names[kk] = name
            self.decls.append("%s :: %s;" % (name, body))
        return self.names[kk]


PRE = """core :: #mod("core");
meta :: core.meta;
ptr :: core.ptr;

brief :: (ty: type) { core.print(" ", meta.size_of(ty), " ", meta.align_of(ty)); }
desc :: (ty: type) {
    core.print("D ", meta.size_of(ty), " ", meta.align_of(ty), " ", meta.stride_of(ty), " ");
    switch info in meta.get_type_info(ty) {
        .Int => { core.print("Int ", info.bit_width, " ", info.signed); },
        .Float => { core.print("Float ", info.bit_width); },
        .Bool => { core.print("Bool"); },
        .Char => { core.print("Char"); },
        .String => { core.print("String"); },
        .Array => { core.print("Array ", info.len); brief(info.sub_ty); },
        .Slice => { core.print("Slice"); brief(info.sub_ty); },
        .Pointer => { core.print("Pointer"); brief(info.sub_ty); core.print(" ", info.mutable); },
        .Distinct => { core.print("Distinct"); brief(info.sub_ty); },
        .Struct => {
            core.print("Struct");
            i := 0;
            while i < info.members.len {
                m := info.members[i];
                core.print(" ", m.name);
                brief(m.ty);
                core.print(" ", m.offset);
                i += 1;
            }
        },
        .Enum => {
            core.print("Enum ", info.discriminant_offset);
            i := 0;
            while i < info.variants.len {
                switch vi in meta.get_type_info(info.variants[i]) {
                    .Variant => { brief(vi.sub_ty); core.print(" ", vi.discriminant); },
                    _ => { core.print(" not-a-variant"); },
                }
                i += 1;
            }
        },
        .Optional => { core.print("Optional"); brief(info.sub_ty); core.print(" ", info.is_non_zero, " ", info.discriminant_offset); },
        .Error_Union => { core.print("Error_Union"); brief(info.error_ty); brief(info.payload_ty); core.print(" ", info.discriminant_offset); },
        _ => { core.print("Other"); },
    }
    core.println();
}
"""


def b(x):
    return " %d %d" % (x["size"], x["align"])


def tf(x):
    return "true" if x else "false"


def expected_desc(d):
    i = d["info"]
    k = i["kind"]
    s = "D %d %d %d " % (d["size"], d["align"], d["stride"])
    if k == "Int":
        return s + "Int %d %s" % (i["bits"], tf(i["signed"]))
    if k == "Float":
        return s + "Float %d" % i["bits"]
    if k in ("Bool", "Char", "String"):
        return s + k
    if k == "Array":
        return s + "Array %d" % i["len"] + b(i["sub"])
    if k == "Slice":
        return s + "Slice" + b(i["sub"])
    if k == "Pointer":
        return s + "Pointer" + b(i["sub"]) + " " + tf(i["mutable"])
    if k == "Distinct":
        return s + "Distinct" + b(i["sub"])
    if k == "Struct":
        return s + "Struct" + "".join(" %s%s %d" % (m["name"], b(m["ty"]), m["offset"]) for m in i["members"])
    if k == "Enum":
        return s + "Enum %d" % i["tag"] + "".join(b(v["sub"]) + " %d" % v["discriminant"] for v in i["variants"])
    if k == "Optional":
        return s + "Optional" + b(i["sub"]) + " " + tf(i["nonzero"]) + (" *" if i["nonzero"] else " %d" % i["tag"])
    if k == "Error_Union":
        return s + "Error_Union" + b(i["err"]) + b(i["ok"]) + " %d" % i["tag"]
    return s + "?"


ANY_VALUES = {"i32": "5", "u8": "7", "bool": "true", "f64": "1.5", "u64": "9", "i16": "3", "char": "'x'"}


def run(chk):
    res = common.run_tlc("Reflect", "Reflect.cfg", chk.wd, workers=1, timeout=1800, out_name="enum.out",
                         env={"PTR": "64", "LEVEL": "1", "TRACE": "none"})
    chk.require_tlc_ok("Reflect.tla (universe pairwise different; descriptions consistent with the layout rules)", res)
    descs = {}
    for x in common.tlc_lines(res.out, "CASE"):
        descs[x["idx"]] = x
    os.remove(res.out)
    ds = [descs[k] for k in sorted(descs)]
    for order in ("forward", "reverse"):
        run_order(chk, ds if order == "forward" else list(reversed(ds)), order)
    chk.cov["exhaustive"] = True
    chk.cov["rule"] = ("every type of Reflect.tla's universe (integers, floats, bool, char, str, pointers, slices, "
                       "arrays, structs, enums, optionals incl. nested ones, error unions, distincts), reflected in "
                       "forward and in reverse order (type ids are handed out in order of first use): run-time "
                       "description through core.meta, member / element address differences on real memory, size / "
                       "align / stride inside comptime, the full type-equality matrix, `any` made from a value of every type "
                       "(it carries that type and not, for a distinct, the underlying one)")


def run_order(chk, ds, order):
    N = Names()
    tys = [N.texpr(d["t"]) for d in ds]
    n = len(ds)
    L = ["main :: () {"]
    want = []
    # (1) reflection at run time
    for d, T in zip(ds, tys):
        L.append("    desc(%s);" % T)
        want.append(("desc", T, expected_desc(d)))
    # (2) address arithmetic on real memory
    L.append("    buf : [256]u8;")
    for j, (d, T) in enumerate(zip(ds, tys)):
        if not d["addr"]:
            continue
        L.append("    p%d := ^%s.(rawptr.(^buf));" % (j, T))
        if d["t"]["k"] == "arr":
            L.append("    core.println(\"A \", ptr.to_raw(^p%d[1]) - ptr.to_raw(^p%d[0]));" % (j, j))
        else:
            parts = ", \" \", ".join("ptr.to_raw(^p%d.%s) - ptr.to_raw(p%d)" % (j, m[0], j) for m in d["t"]["ms"])
            L.append("    core.println(\"A \", %s);" % parts)
        want.append(("addr", T, "A " + " ".join(str(x) for x in d["addr"])))
    # (3) comptime reflection
    for j, (d, T) in enumerate(zip(ds, tys)):
        L.append("    core.println(\"C \", comptime { meta.size_of(%s) }, \" \", comptime { meta.align_of(%s) }, \" \", comptime { meta.stride_of(%s) });" % (T, T, T))
        want.append(("comptime", T, "C %d %d %d" % (d["size"], d["align"], d["stride"])))
    # (4) equality of type values: row j = Tj == T0, Tj == T1, ...
    for j, T in enumerate(tys):
        row = ", ".join("%s == %s" % (T, U) for U in tys)
        L.append("    eq%d := bool.[%s];" % (j, row))
        L.append("    k%d := 0; while k%d < %d { if eq%d[k%d] { core.print(\"1\"); } else { core.print(\"0\"); } k%d += 1; } core.println();" % (j, j, n, j, j, j))
        want.append(("equality", T, "".join("1" if a == j else "0" for a in range(n))))
    # (5) an `any` carries the type of the value it was made from
    for T, v in ANY_VALUES.items():
        if T in tys:
            L.append("    { v : %s = %s; a : any = v; core.println(\"Y \", core.type_of(a) == %s, \" \", core.type_of(a) == %s); }"
                     % (T, v, T, "u16" if T != "u16" else "i8"))
            want.append(("any", T, "Y true false"))
    # (6) ... for every type of the universe (a value read from zeroed memory): the `any` carries
    # exactly that type - in particular not the underlying type of a distinct
    for j, (d, T) in enumerate(zip(ds, tys)):
        if d["size"] == 0:
            continue
        other = N.texpr(d["t"]["sub"]) if d["t"]["k"] == "distinct" else tys[(j + 1) % n]
        L.append("    { q := ^%s.(rawptr.(^buf)); a : any = q^; core.println(\"Z \", core.type_of(a) == %s, \" \", core.type_of(a) == %s); }"
                 % (T, T, other))
        want.append(("any-of", T, "Z true false"))
    L.append("}")
    src = PRE + "\n".join(N.decls) + "\n" + "\n".join(L) + "\n"
    job = {"id": "refl", "files": {"main.capy": src}, "run": True, "timeout_ms": 120000, "mod_dir": "repo"}
    r = common.run_batch([job], chk.wd, "refl_" + order, par=1)[0]
    if r["has_errors"] or r.get("panic") or not r.get("run") or r["run"].get("status") != 0:
        chk.violation({"kind": "program-not-run", "order": order},
                      {"diagnostics": [(d["kind"], d["header"], d["text"][:200]) for d in r["diags"] if d["sev"] == "error"][:6],
                       "panic": r.get("panic"), "run": json.dumps(r.get("run"))[:300], "source": src[-3000:],
                       "note": "the reflection program was rejected or did not run to completion"})
        lines = []
    else:
        lines = r["run"]["stdout"].split("\n")
    nok = 0
    for k, (kind, T, w) in enumerate(want):
        got = lines[k] if k < len(lines) else "<missing>"
        ok = got == w
        if kind == "desc" and " *" in w:         # the tag offset of a pointer-like optional is not prescribed
            ok = got.rsplit(" ", 1)[0] == w.rsplit(" ", 1)[0]
        if ok:
            nok += 1
        elif lines:
            sig = {"kind": kind, "ty": T}
            if kind == "equality":
                bad = [tys[a] for a in range(min(len(got), n)) if got[a] != w[a]]
                sig = {"kind": kind, "ty": T, "with": ",".join(bad)[:60]}
            chk.violation(sig, {"what": kind, "type": T, "type_term": None if kind != "desc" else ds[tys.index(T)]["t"],
                                "prescribed": w, "observed": got, "decls": N.decls,
                                "how": "line %d of the reflection program's output" % (k + 1)})
    for k in (3, n + 2):
        chk.sample({"order": order, "check": want[k][0], "type": want[k][1], "prescribed": want[k][2],
                    "observed": lines[k] if k < len(lines) else None})
    chk.cov["traces_validated_against_impl"] += nok
    chk.cov["evaluations"] += len(want)
    chk.cov["distinct_nontrivial"] += len({w for w in want})
    chk.cov["types"] = n


def replay(path):
    print(json.dumps(json.load(open(path))["detail"], indent=1)[:3000])
    return 1
