"""C19 - calls across the C boundary pass values intact (x86-64 System V).

spec/SysVAbi.tla is the psABI's argument classification as a machine that adds one parameter at a
time (integer / SSE registers left, aggregates never split, MEMORY class, hidden result pointer);
every transition of its state graph is one signature to test.  For each signature the host gcc
compiles a C callee (prints the bytes of every argument leaf, returns a value) and a C caller
(calls a function pointer with fixed values, prints the returned leaves); the Capy program declares
the callee `extern`, calls it, and passes its own function to the C caller.  Verdict: the printed
leaves equal the values both sides were given.
"""
import json
import os
import random
import struct

import common
from common import log

CT = {8: "int8_t", 16: "int16_t", 32: "int32_t", 64: "int64_t"}


def is_agg(t):
    return t["k"] in ("struct", "anonstruct")


class TypeTable:
    def __init__(self, types):
        self.types = [x["t"] for x in types]
        self.classes = [x["class"] for x in types]
        self.cdecls, self.capydecls = [], []
        self.cname, self.capyname = [], []
        for j, t in enumerate(self.types):
            if is_agg(t):
                cn, pn = "struct S%d" % j, "S%d" % j
                cf = " ".join(self.cfield(m[1], "f%d" % k) for k, m in enumerate(t["ms"]))
                self.cdecls.append("%s { %s };" % (cn, cf))
                self.capydecls.append("%s :: struct { %s };" % (pn, ", ".join("f%d: %s" % (k, self.capy_ty(m[1])) for k, m in enumerate(t["ms"]))))
            else:
                cn, pn = self.c_ty(t), self.capy_ty(t)
            self.cname.append(cn)
            self.capyname.append(pn)

    def c_ty(self, t):
        k = t["k"]
        if k == "int":
            return ("" if t["s"] else "u") + CT[t["w"]]
        if k == "float":
            return "float" if t["w"] == 32 else "double"
        if k in ("bool", "char"):
            return "uint8_t"
        if k == "ptr" or k == "opt":
            return "int32_t*"
        raise ValueError(k)

    def cfield(self, t, name):
        if t["k"] == "arr":
            return "%s %s[%d];" % (self.c_ty(t["sub"]), name, t["n"])
        return "%s %s;" % (self.c_ty(t), name)

    def capy_ty(self, t):
        k = t["k"]
        if k == "int":
            return ("i" if t["s"] else "u") + str(t["w"])
        if k == "float":
            return "f%d" % t["w"]
        if k in ("bool", "char"):
            return k
        if k == "ptr":
            return "^i32"
        if k == "opt":
            return "?^i32"
        if k == "arr":
            return "[%d]%s" % (t["n"], self.capy_ty(t["sub"]))
        raise ValueError(k)

    # leaves: (c access path, capy access path, leaf type)
    def leaves(self, j, cvar, pvar):
        t = self.types[j]
        out = []
        if not is_agg(t):
            return [(cvar, pvar, t)]
        for k, m in enumerate(t["ms"]):
            ft = m[1]
            if ft["k"] == "arr":
                for e in range(ft["n"]):
                    out.append(("%s.f%d[%d]" % (cvar, k, e), "%s.f%d[%d]" % (pvar, k, e), ft["sub"]))
            else:
                out.append(("%s.f%d" % (cvar, k), "%s.f%d" % (pvar, k), ft))
        return out


def leaf_value(t, seed):
    """(bytes as the observer prints them, C literal, Capy literal)"""
    k = t["k"]
    if k == "int":
        n = t["w"] // 8
        bs = [(seed * 7 + b * 13) % 100 + 20 for b in range(n)]
        v = int.from_bytes(bytes(bs), "little")
        name = ("i" if t["s"] else "u") + str(t["w"])
        return bs, "(%s%s)%dULL" % ("" if t["s"] else "u", CT[t["w"]], v), "%s.(%d)" % (name, v)
    if k == "float":
        val = (seed % 50 + 1) * 1.5 + (seed % 7) * 0.25
        bs = list(struct.pack("<f" if t["w"] == 32 else "<d", val))
        return bs, ("%rf" % val if t["w"] == 32 else "%r" % val), "f%d.(%r)" % (t["w"], val)
    if k == "bool":
        return [seed % 2], str(seed % 2), "true" if seed % 2 else "false"
    if k == "char":
        c = 65 + seed % 26
        return [c], str(c), "'%s'" % chr(c)
    if k == "ptr":
        return list((4242).to_bytes(4, "little")), "&cell", "^cell"
    if k == "opt":
        if seed % 2:
            return [0xEE], "0", "nil"
        return list((4242).to_bytes(4, "little")), "&cell", "^cell"
    raise ValueError(k)


def hexs(bs):
    return "".join("%02x" % b for b in bs)


def c_print_leaf(path, t):
    k = t["k"]
    if k == "ptr":
        return "pbytes(%s, 4);" % path
    if k == "opt":
        return "if (%s) pbytes(%s, 4); else printf(\"ee\");" % (path, path)
    n = {"int": t.get("w", 8) // 8, "float": t.get("w", 32) // 8, "bool": 1, "char": 1}[k]
    return "pbytes(&%s, %d);" % (path, n)


def capy_print_leaf(path, t, n):
    k = t["k"]
    if k == "ptr":
        return "emit(%s, 4);" % path
    if k == "opt":
        return "if #is_variant(%s, nil) { putchar(101); putchar(101); } else { emit(#unwrap(%s, ^i32), 4); }" % (path, path)
    size = {"int": t.get("w", 8) // 8, "float": t.get("w", 32) // 8, "bool": 1, "char": 1}[k]
    return "{ t_%d := %s; emit(^t_%d, %d); }" % (n, path, n, size)


class Sig:
    def __init__(self, T, n, ps, ret, info):
        self.T, self.n, self.ps, self.ret, self.info = T, n, ps, ret, info

    def values(self, which):
        """per parameter (which = 'p<k>') or the result: list of leaves with their values"""
        T = self.T
        out = []
        for k, j in enumerate(self.ps):
            lv = []
            for li, (cp, pp, lt) in enumerate(T.leaves(j, "p%d" % k, "p%d" % k)):
                lv.append((cp, pp, lt, leaf_value(lt, self.n * 31 + k * 17 + li * 5 + (3 if which == "cb" else 0))))
            out.append(lv)
        rl = []
        for li, (cp, pp, lt) in enumerate(T.leaves(self.ret, "r", "r")):
            rl.append((cp, pp, lt, leaf_value(lt, self.n * 13 + li * 3 + (1 if which == "cb" else 0))))
        return out, rl


def c_value_expr(T, j, leaves):
    t = T.types[j]
    if not is_agg(t):
        return leaves[0][3][1]
    parts, li = [], 0
    for m in t["ms"]:
        ft = m[1]
        if ft["k"] == "arr":
            parts.append("{" + ", ".join(leaves[li + e][3][1] for e in range(ft["n"])) + "}")
            li += ft["n"]
        else:
            parts.append(leaves[li][3][1])
            li += 1
    return "(%s){%s}" % (T.cname[j], ", ".join(parts))


def capy_value_expr(T, j, leaves):
    t = T.types[j]
    if not is_agg(t):
        return leaves[0][3][2]
    parts, li = [], 0
    for k, m in enumerate(t["ms"]):
        ft = m[1]
        if ft["k"] == "arr":
            parts.append("f%d = %s.[%s]" % (k, T.capy_ty(ft["sub"]), ", ".join(leaves[li + e][3][2] for e in range(ft["n"]))))
            li += ft["n"]
        else:
            parts.append("f%d = %s" % (k, leaves[li][3][2]))
            li += 1
    return "%s.{ %s }" % (T.capyname[j], ", ".join(parts))


def render(T, sigs):
    """(capy source, c source, expected lines) for a batch of signatures"""
    C = ["#include <stdio.h>", "#include <stdint.h>", "#include <string.h>", "static int32_t cell = 4242;",
         "static void pbytes(const void *p, int n) { const unsigned char *b = p; for (int i = 0; i < n; i++) printf(\"%02x\", b[i]); }"]
    C += T.cdecls
    P = ["""putchar :: (c: i32) -> i32 extern;
fflush :: (f: usize) -> i32 extern;
to_raw :: (ptr: rawptr) -> usize #builtin("const_rawptr_to_usize");
from_raw :: (raw: usize) -> rawptr #builtin("usize_to_const_rawptr");
hexd :: (n: u8) { if n < 10 { putchar(i32.(n) + 48); } else { putchar(i32.(n) + 87); } }
emit_u8 :: (b: u8) { hexd(b >> 4); hexd(b & 15); }
emit :: (p: rawptr, n: usize) {
    i : usize = 0;
    while i < n {
        b := (^u8.(from_raw(to_raw(p) + i)))^;
        emit_u8(b);
        i += 1;
    }
}
nl :: () { putchar(10); }
cell : i32 : 4242;
"""] + T.capydecls
    main = ["main :: () -> i32 {"]
    want = []
    for s in sigs:
        n = s.n
        R = s.ret
        cps = ", ".join("%s p%d" % (T.cname[j], k) for k, j in enumerate(s.ps)) or "void"
        pps = ", ".join("p%d: %s" % (k, T.capyname[j]) for k, j in enumerate(s.ps))
        # ---- direction 1: Capy calls C
        pv, rv = s.values("call")
        body = ["printf(\"c%d:\");" % n]
        for lv in pv:
            for (cp, pp, lt, val) in lv:
                body.append("putchar(' '); " + c_print_leaf(cp, lt))
        body.append("putchar('\\n');")
        body.append("return %s;" % c_value_expr(T, R, rv))
        C.append("%s c_fn%d(%s) { %s }" % (T.cname[R], n, cps, " ".join(body)))
        P.append("c_fn%d :: (%s) -> %s extern;" % (n, pps, T.capyname[R]))
        args = ", ".join(capy_value_expr(T, j, lv) for j, lv in zip(s.ps, pv))
        main.append("    { r := c_fn%d(%s); putchar(114); %s nl(); }" % (
            n, args, " ".join("putchar(32); " + capy_print_leaf(pp, lt, 1000 * n + li) for li, (cp, pp, lt, val) in enumerate(rv))))
        want.append(("capy->C args", s, "c%d: " % n + " ".join(hexs(val[0]) for lv in pv for (_, _, _, val) in lv)))
        want.append(("capy->C result", s, "r " + " ".join(hexs(val[0]) for (_, _, _, val) in rv)))
        # ---- direction 2: C calls Capy through a function pointer
        pv2, rv2 = s.values("cb")
        pbody = ["putchar(107);"]      # 'k'
        cnt = 0
        for lv in pv2:
            for (cp, pp, lt, val) in lv:
                cnt += 1
                pbody.append("putchar(32); " + capy_print_leaf(pp, lt, 1000 * n + 500 + cnt))
        pbody.append("nl();")
        P.append("capy_fn%d :: (%s) -> %s { %s %s }" % (n, pps, T.capyname[R], " ".join(pbody), capy_value_expr(T, R, rv2)))
        fpty = "%s (*f)(%s)" % (T.cname[R], ", ".join(T.cname[j] for j in s.ps) or "void")
        cargs = ", ".join(c_value_expr(T, j, lv) for j, lv in zip(s.ps, pv2))
        cb = ["%s r = f(%s);" % (T.cname[R], cargs), "putchar('R');"]
        for (cp, pp, lt, val) in rv2:
            cb.append("putchar(' '); " + c_print_leaf(cp, lt))
        cb.append("putchar('\\n');")
        C.append("void c_call%d(%s) { %s }" % (n, fpty, " ".join(cb)))
        P.append("c_call%d :: (f: (%s) -> %s) extern;" % (n, pps, T.capyname[R]))
        main.append("    c_call%d(capy_fn%d);" % (n, n))
        want.append(("C->capy args", s, "k " + " ".join(hexs(val[0]) for lv in pv2 for (_, _, _, val) in lv)))
        want.append(("C->capy result", s, "R " + " ".join(hexs(val[0]) for (_, _, _, val) in rv2)))
    main += ["    0", "}"]
    return "\n".join(P + main) + "\n", "\n".join(C) + "\n", want


def sig_text(T, s):
    return "(%s) -> %s" % (", ".join(T.capyname[j] if not is_agg(T.types[j]) else "struct{%s}" % ",".join(
        T.capy_ty(m[1]) for m in T.types[j]["ms"]) for j in s.ps),
        T.capyname[s.ret] if not is_agg(T.types[s.ret]) else "struct{%s}" % ",".join(T.capy_ty(m[1]) for m in T.types[s.ret]["ms"]))


def run(chk):
    cfg = "SysVAbi_q.cfg" if chk.tier == "quick" else "SysVAbi_t.cfg"
    res = common.run_tlc("SysVAbi", cfg, chk.wd, workers=4, timeout=3000, out_name="enum.out",
                         env={"PTR": "64", "LEVEL": "1", "TRACE": "none"})
    chk.require_tlc_ok("SysVAbi.tla (classification machine; one signature per transition)", res)
    types = next(common.tlc_lines(res.out, "TYPES"))
    seen, cases = set(), []
    for x in common.tlc_lines(res.out, "CASE"):
        # one signature per (registers left, hidden result pointer, type of the new parameter)
        key = (x["ir"], x["sr"], x["ret"] > 0, x["ps"][-1])
        if key not in seen:
            seen.add(key)
            cases.append(x)
    os.remove(res.out)
    T = TypeTable(types)
    rng = random.Random(chk.seed + 19)
    if chk.tier == "quick":
        rng.shuffle(cases)
        cases = cases[:360]
    nonmem = [j for j, c in enumerate(T.classes) if c != ["M"]]
    sigs = []
    for n, x in enumerate(cases):
        ps = [j - 1 for j in x["ps"]]
        # a trailing scalar parameter shows that what follows the tested parameter is still right
        if len(ps) < 8:
            ps = ps + [rng.choice([0, 3])]
        ret = x["ret"] - 1 if x["ret"] > 0 else nonmem[n % len(nonmem)]
        sigs.append(Sig(T, n, ps, ret, x))
    per = 20
    jobs, wants = [], []
    for b in range(0, len(sigs), per):
        capy, csrc, want = render(T, sigs[b:b + per])
        jobs.append({"id": "abi%d" % b, "files": {"main.capy": capy}, "c_source": csrc, "run": True, "timeout_ms": 60000})
        wants.append(want)
    results = common.run_batch(jobs, chk.wd, "abi", par=12)
    nok = 0
    notrun = {}
    for job, want, r in zip(jobs, wants, results):
        ok = r.get("run") and r["run"].get("status") == 0 and not r["has_errors"] and not r.get("panic")
        if not ok:
            why = ("rejected: %s" % [(d["kind"], d["header"], d["text"][:160]) for d in r["diags"] if d["sev"] == "error"][:3]) if r["has_errors"] else (
                "panic: %s" % (r["panic"] or {}).get("msg", "")[:100] if r.get("panic") else
                "cranelift: " + r.get("cranelift_err", "")[:100] if r.get("cranelift_err") else
                "link: " + r.get("link", "")[:300] if r.get("link") not in ("ok", "") else "run: %s" % json.dumps(r.get("run"))[:200])
            notrun.setdefault(why[:90], []).append(job["id"])
            continue
        lines = r["run"]["stdout"].split("\n")
        for k, (what, s, w) in enumerate(want):
            got = lines[k] if k < len(lines) else "<missing>"
            if got == w:
                nok += 1
            else:
                lastj = s.ps[-2] if len(s.ps) > 1 else s.ps[-1]
                chk.violation({"kind": what, "class": "".join(T.classes[lastj]), "ret_class": "".join(T.classes[s.ret])},
                              {"what": what, "signature": sig_text(T, s), "prescribed": w, "observed": got,
                               "registers_left_before_tested_param": {"int": s.info["ir"], "sse": s.info["sr"]},
                               "tested_param_in_registers": s.info["inregs"],
                               "how": "leaves of every argument / of the result printed as little-endian hex by the receiving side"})
    for why, ids in notrun.items():
        chk.violation({"kind": "not-built", "why": why[:60]}, {"why": why, "batches": ids[:5],
                      "note": "a batch of extern / callback signatures was rejected or did not run"})
    chk.sample({"signature": sig_text(T, sigs[0]), "lines": [w for (_, s, w) in wants[0][:4]]})
    chk.sample({"signature": sig_text(T, sigs[len(sigs) // 2]), "info": sigs[len(sigs) // 2].info})
    chk.cov["traces_validated_against_impl"] = nok
    chk.cov["evaluations"] = 4 * len(sigs)
    chk.cov["distinct_nontrivial"] = len({json.dumps([s.ps, s.ret]) for s in sigs})
    chk.cov["signatures"] = len(sigs)
    chk.cov["rule"] = ("one signature per transition of SysVAbi.tla's state graph, deduplicated by (integer registers "
                       "left, SSE registers left, hidden result pointer, type of the added parameter) - the parameters "
                       "that lead to the state, the tested parameter, a trailing scalar; result types rotate over the "
                       "pool; both call directions; 4 printed lines per signature")


def replay(path):
    print(json.dumps(json.load(open(path))["detail"], indent=1)[:3000])
    return 1
