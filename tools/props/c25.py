"""C25 - reported line and column are exactly right.  spec/LineCol.tla."""
import json
import os

import common

ALPHABET = [97, 10, 13, 9, 233]


def run(chk):
    maxlen = 6 if chk.tier == "quick" else 8
    n = sum(len(ALPHABET) ** k for k in range(maxlen + 1))
    enum = os.path.join(chk.wd, "enum.ndjson")
    common.harness(["linecol-enum", "--alphabet", json.dumps(ALPHABET), "--maxlen", str(maxlen),
                    "--out", enum, "--par", "8"])
    # diagnostics rendered by the real pipeline: header line:col vs range start
    diag = diag_records(chk)
    with open(enum, "a") as f:
        for d in diag:
            f.write(json.dumps(d) + "\n")
    res = common.run_tlc("LineCol", "LineCol.cfg", chk.wd, workers=1, timeout=3000,
                         env={"TRACE": enum, "EXPECT_N": str(n)}, out_name="lc.out")
    chk.require_tlc_ok("LineCol.tla", res)
    bad = list(common.tlc_lines(res.out, "BAD"))
    if bad:
        recs = list(common.read_ndjson(enum))
        for b in bad:
            r = recs[b["idx"] - 1]
            if "start" in r:
                chk.violation({"kind": "diag-header", "src": r.get("src", "")[:80]}, r)
            else:
                chk.violation({"kind": "line_col", "bytes": r["b"]},
                              {"bytes": r["b"], "line_col_per_offset": r["lc"], "panic": r["panic"],
                               "how": "LineIndex::new(text).line_col(o) for o in 0..=len"})
    for k, r in enumerate(common.read_ndjson(enum)):
        if k in (1234, 15000):
            chk.sample(r)
    if diag:
        chk.sample(diag[0])
    chk.cov["traces_validated_against_impl"] = res.distinct - 1
    chk.cov["evaluations"] = n + len(diag)
    chk.cov["distinct_nontrivial"] = n - 1 + len(diag)
    chk.cov["diagnostic_records"] = len(diag)
    chk.cov["exhaustive"] = True
    chk.cov["rule"] = ("every string of length <= %d over {a, \\n, \\r, \\t, e-acute} with every byte "
                       "offset (count asserted by TLC); plus one record per diagnostic rendered "
                       "while compiling mutated corpus programs" % maxlen)


def diag_records(chk):
    import corpus
    n = 150 if chk.tier == "quick" else 1500
    jobs = []
    for k, (origin, text) in enumerate(corpus.mutant_stream(chk.seed + 25, n)):
        if len(text) > 20000:
            continue
        jobs.append({"id": "d%d" % k, "files": {"main.capy": text}, "stop_after": "infer",
                     "timeout_ms": 10000})
    res = common.run_batch(jobs, chk.wd, "diag")
    out = []
    for j, r in zip(jobs, res):
        text = j["files"]["main.capy"]
        b = text.encode("utf-8")
        nl = [k for k, c in enumerate(b) if c == 10]
        for d in r.get("diags", []):
            if not d["render_ok"] or not d["header"]:
                continue
            try:
                hl, hc = d["header"].split(":")
                out.append({"nl": nl, "start": d["start"], "hl": int(hl), "hc": int(hc),
                            "src": text[:300], "kind": d["kind"]})
            except ValueError:
                pass
    return out


def replay(path):
    v = json.load(open(path))
    print(json.dumps(v["detail"], indent=1))
    return 1
