"""C24 - expressions parse by the documented precedence and associativity.  spec/ExprGrammar.tla."""
import json
import os

import common


def strip(t):
    """parentheses are transparent"""
    if t is None:
        return None
    if isinstance(t, list):
        return [strip(x) for x in t]
    if not isinstance(t, dict):
        return t
    if t.get("k") == "paren":
        return strip(t.get("e"))
    return {k: strip(v) for k, v in t.items()}


def norm(t):
    """TLA+ JSON -> same shape as the harness output"""
    if isinstance(t, list):
        return [norm(x) for x in t]
    if isinstance(t, dict):
        return {k: norm(v) for k, v in t.items()}
    return t


def run(chk):
    cfg = "ExprGrammar_q.cfg" if chk.tier == "quick" else "ExprGrammar_t.cfg"
    res = common.run_tlc("ExprGrammar", cfg, chk.wd, workers=1, timeout=1800, out_name="enum.out")
    chk.require_tlc_ok("ExprGrammar.tla (Print injective on every family)", res)
    cases = list(common.tlc_lines(res.out, "REPLAY"))
    os.remove(res.out)
    tin = os.path.join(chk.wd, "exprs.in")
    texts = []
    for c in cases:
        texts.append(c["min"])
        texts.append(c["full"])
    with open(tin, "w") as f:
        for t in texts:
            f.write(json.dumps(t) + "\n")
    tout = os.path.join(chk.wd, "parsed.ndjson")
    common.harness(["parse-exprs", "--in", tin, "--out", tout])
    obs = list(common.read_ndjson(tout))
    for k, c in enumerate(cases):
        exp = norm(c["tree"])
        for which, o in (("minimal", obs[2 * k]), ("redundant", obs[2 * k + 1])):
            got = strip(o["tree"])
            ok = o["panic"] == "" and o["nerr"] == 0 and o["nstmts"] == 1 and got == exp
            if not ok:
                chk.violation({"kind": "expr-parse", "text": o["text"]},
                              {"text": o["text"], "parentheses": which, "expected_tree": exp,
                               "parsed_tree": got, "syntax_errors": o["nerr"], "panic": o["panic"],
                               "how": "parser::parse_repl_line(text) and the ast accessors"})
                break
    for k in (3, 900, 2500):
        if k < len(cases):
            chk.sample({"text": cases[k]["min"], "redundant": cases[k]["full"], "tree": cases[k]["tree"]})
    chk.cov["traces_validated_against_impl"] = len(texts)
    chk.cov["evaluations"] = len(texts)
    chk.cov["distinct_nontrivial"] = len(set(texts))
    chk.cov["exhaustive"] = True
    chk.cov["rule"] = ("ExprGrammar.tla families: all atoms with every prefix / postfix operator and "
                       "every binary operator; all 18x18 operator pairs in both nestings; 14 operand "
                       "shapes under 5 representative binary operators and every prefix / postfix "
                       "operator, call arguments, index and cast positions; thorough adds depth-3 "
                       "binary shapes; each printed minimally and with redundant parentheses")


def replay(path):
    print(json.dumps(json.load(open(path))["detail"], indent=1))
    return 1
