"""C11 - switches are exhaustive, non-redundant, and dispatch on the run-time variant.

spec/SwitchCheck.tla: the static rule (only own variants, none twice, all or a default) and the
dispatch rule (exactly the arm of the current variant runs; default otherwise) over every sum type
shape x arm list x default x spelling style in the bound.  TLC checks `exactly one arm is
responsible` and emits per switch the verdict and, for accepted ones, the arm per variant.  Each
switch is one function given to the real front end; accepted ones are run on every variant.
"""
import json
import os

import common
from common import log
from props import c08

VN = "ABCDEF"
DISC = {1: 7, 2: 200, 3: 255, 4: 0, 5: 100, 6: 31}


def ty_key(t):
    return json.dumps(t, sort_keys=True)


class Types:
    def __init__(self, tys):
        self.names = {}
        self.decls = ["Agg :: struct { a: i32, b: u8 };", "X :: enum { Q: i32, R };", "NilD :: distinct nil;"]
        for n, t in enumerate(sorted(tys, key=ty_key)):
            base = "T%d" % n
            if t["kind"] == "enum":
                vs = []
                for k, p in enumerate(t["shape"], start=1):
                    v = VN[k - 1] + ("" if p == "void" else ": " + {"i32": "i32", "u8": "u8", "agg": "Agg", "ptr": "^i32"}[p])
                    if t["disc"] == "custom":
                        v += " | %d" % DISC[k]
                    elif t["disc"] in ("edge", "over") and k == 1:
                        # the following variants are counted up from here: up to 255 / past it
                        v += " | %d" % (256 - t["n"] if t["disc"] == "edge" else 255)
                    vs.append(v)
                if t["disc"] == "over":
                    # an invalid declaration: it is made inside the function that uses it, so that
                    # its diagnostics belong to that function
                    self.local = getattr(self, "local", {})
                    self.local[ty_key(t)] = "%s :: enum { %s };" % (base, ", ".join(vs))
                else:
                    self.decls.append("%s :: enum { %s };" % (base, ", ".join(vs)))
            elif t["kind"] == "opt":
                self.decls.append("%s :: ?i32;" % base)
            elif t["kind"] == "nptr":
                self.decls.append("%s :: ?^i32;" % base)
            elif t["kind"] == "euptr":
                self.decls.append("%s :: str!^i32;" % base)
            else:
                self.decls.append("%s :: str!i32;" % base)
            name = base
            if t["wrap"] == "distinct":
                name = "W%d" % n
                self.decls.append("%s :: distinct %s;" % (name, base))
            elif t["wrap"] == "variant":
                # the scrutinee is of the type of a variant whose payload is the sum type
                self.decls.append("V%d :: enum { A: %s, B };" % (n, base))
                name = "V%d.A" % n
            self.names[ty_key(t)] = (name, base)

    def variant_ty(self, t, v):
        """type expression naming variant v (0 = foreign) in fully qualified form"""
        name, base = self.names[ty_key(t)]
        k = t["kind"]
        if k == "enum":
            return "X.Q" if v == 0 else "%s.%s" % (base, VN[v - 1])
        if k == "opt":
            # a type that is nil underneath is not the variant `nil`
            return {0: "NilD", 1: "i32", 2: "nil"}[v]
        if k == "nptr":
            return {0: "str", 1: "^i32", 2: "nil"}[v]
        if k == "euptr":
            return {0: "u8", 1: "^i32", 2: "str"}[v]
        return {0: "u8", 1: "i32", 2: "str"}[v]

    def value(self, t, r):
        name, base = self.names[ty_key(t)]
        k = t["kind"]
        if k == "enum":
            p = t["shape"][r - 1]
            v = "%s.%s" % (base, VN[r - 1])
            if p == "i32":
                v += ".(%d)" % (40 + r)
            elif p == "u8":
                v += ".(%d)" % (50 + r)
            elif p == "agg":
                v += ".(Agg.{ a = %d, b = %d })" % (60 + r, 70 + r)
            elif p == "ptr":
                v += ".(^cell)"
        elif k == "euptr":
            v = "%s.(^cell)" % base if r == 1 else "%s.(\"-\")" % base
        elif k == "opt":
            v = "%s.(43)" % base if r == 1 else "%s.(nil)" % base
        elif k == "nptr":
            v = "%s.(^cell)" % base if r == 1 else "%s.(nil)" % base
        else:
            v = "%s.(44)" % base if r == 1 else "%s.(\"-\")" % base
        return "%s.(%s)" % (name, v) if t["wrap"] == "distinct" else v

    def payload_emit(self, t, v):
        """statements printing the payload bound to `a` in the arm of variant v"""
        k = t["kind"]
        if k == "enum":
            p = t["shape"][v - 1]
            return {"i32": "emit(^a, 4);", "u8": "emit(^a, 1);", "agg": "emit(^a, 5);", "void": "", "ptr": "emit((^i32).(a), 4);"}[p]
        if k == "opt":
            return "emit(^a, 4);" if v == 1 else ""
        if k == "nptr":
            return "emit(a, 4);" if v == 1 else ""
        if k == "euptr":
            return "emit(a, 4);" if v == 1 else "emit(rawptr.(a), 1);"
        return "emit(^a, 4);" if v == 1 else "emit(rawptr.(a), 1);"

    def payload_hex(self, t, r):
        k = t["kind"]
        le = lambda x, n: x.to_bytes(n, "little").hex()
        if k == "enum":
            p = t["shape"][r - 1]
            return {"i32": le(40 + r, 4), "u8": le(50 + r, 1), "agg": le(60 + r, 4) + le(70 + r, 1), "void": "", "ptr": le(43, 4)}[p]
        if k in ("opt", "nptr"):
            return le(43, 4) if r == 1 else ""
        if k == "euptr":
            return le(43, 4) if r == 1 else "2d"
        return le(44, 4) if r == 1 else "2d"


def arm_label(T, s, pos):
    t = s["ty"]
    v = s["arms"][pos]
    full = s["style"] == "full" or (s["style"] == "mixed" and pos % 2 == 1) or t["kind"] != "enum"
    if full:
        return T.variant_ty(t, v)
    return ".Q" if v == 0 else "." + VN[v - 1]


def render(T, n, s):
    t = s["ty"]
    name, base = T.names[ty_key(t)]
    value = s.get("form") == "value"
    if t["disc"] == "over":
        L = ["k%d :: () {" % n, "    " + T.local[ty_key(t)], "    e : %s = %s;" % (name, T.value(t, 1)),
             "    switch a in e {"]
    else:
        L = ["k%d :: (e: %s) {" % (n, name), "    x_ : i32 = switch a in e {" if value else "    switch a in e {"]
    for pos, v in enumerate(s["arms"]):
        body = "putchar(%d); " % (97 + pos)
        if v != 0:
            body += T.payload_emit(t, v)
        if value:
            # the first arm leaves the function, the others yield a value
            body += " nl(); return;" if pos == 0 else " %d" % pos
        L.append("        %s => { %s }," % (arm_label(T, s, pos), body))
    if s["def"]:
        tests = " ".join("if #is_variant(a, %s) { putchar(%d); }" % (T.variant_ty(t, q), 48 + q)
                         for q in range(1, t["n"] + 1))
        L.append("        _ => { putchar(95); %s%s }," % (tests, " 9" if value else ""))
    L.append("    };" if value else "    }")
    L.append("    nl();")
    L.append("}")
    return "\n".join(L)


def expected_line(T, s, ent):
    arm, r = ent["arm"], ent["variant"]
    if arm == 0:
        return "_%d" % r
    return chr(96 + arm) + T.payload_hex(s["ty"], r)


def short(s):
    t = s["ty"]
    return "%s%s%s n=%d %s arms=%s%s %s%s" % (t["kind"], "(%s)" % t["wrap"] if t["wrap"] != "none" else "", "/discr-%s" % t["disc"] if t["disc"] != "auto" else "",
                                              t["n"], ",".join(t["shape"]), s["arms"], "+default" if s["def"] else "", s["style"],
                                              " as value" if s.get("form") == "value" else "")


def run(chk):
    cfg = "SwitchCheck_q.cfg" if chk.tier == "quick" else "SwitchCheck_t.cfg"
    res = common.run_tlc("SwitchCheck", cfg, chk.wd, workers=8, timeout=3000, out_name="enum.out")
    chk.require_tlc_ok("SwitchCheck.tla (exactly one responsible arm; verdict and dispatch table)", res)
    seen, cases = set(), []
    for x in common.tlc_lines(res.out, "CASE"):
        key = json.dumps(x["c"], sort_keys=True)
        if key not in seen:
            seen.add(key)
            cases.append(x)
    os.remove(res.out)
    cases.sort(key=lambda x: json.dumps(x["c"], sort_keys=True))
    T = Types({ty_key(x["c"]["ty"]): x["c"]["ty"] for x in cases}.values())
    pre = c08.prelude() + "\n".join(T.decls) + "\n"
    fns = [render(T, n, x["c"]) for n, x in enumerate(cases)]
    verdicts = common.front_end_verdicts(chk, fns, pre, "sw", per=200)
    runnable = []
    for n, (x, v) in enumerate(zip(cases, verdicts)):
        s = x["c"]
        if v["crash"]:
            chk.violation({"kind": "front-end-crash", "sum": s["ty"]["kind"], "wrap": s["ty"]["wrap"]},
                          {"switch": short(s), "source": fns[n], "crash": v["crash"]})
            continue
        if v["accepted"] != x["accept"]:
            chk.violation({"kind": "verdict", "sum": s["ty"]["kind"], "wrap": s["ty"]["wrap"], "accepted": v["accepted"]},
                          {"switch": short(s), "source": fns[n], "decls": T.decls, "compiler_accepted": v["accepted"],
                           "diagnostics": v["kinds"], "prescribed_accept": x["accept"],
                           "how": "front end (hir_ty) on a function containing the switch"})
            continue
        if x["accept"]:
            runnable.append(n)

    def program(ns):
        calls = []
        for n in ns:
            s = cases[n]["c"]
            for r in range(1, s["ty"]["n"] + 1):
                calls.append("    k%d(%s);" % (n, T.value(s["ty"], r)))
        return pre + "\n".join(fns[n] for n in ns) + "\nmain :: () -> i32 {\n    cell : i32 = 43;\n" + \
            "\n".join(calls) + "\n    0\n}\n"
    # one "case" of run_case_programs must print exactly one line: wrap per switch with n lines -> handle here
    nrun = 0
    notrun = {}
    per = 60
    todo = [runnable[i:i + per] for i in range(0, len(runnable), per)]
    rnd = 0
    while todo:
        jobs = [{"id": "b%d" % bi, "files": {"main.capy": program(ns)}, "run": True, "timeout_ms": 30000}
                for bi, ns in enumerate(todo)]
        results = common.run_batch(jobs, chk.wd, "sw_r%d" % rnd)
        nxt = []
        for ns, r in zip(todo, results):
            ok = r.get("run") and r["run"].get("status") == 0 and not r["has_errors"] and not r.get("panic")
            if not ok:
                if len(ns) == 1:
                    why = "panic: %s" % r["panic"]["msg"][:60] if r.get("panic") else (
                        "rejected: %s" % sorted({d["kind"] for d in r["diags"] if d["sev"] == "error"}) if r["has_errors"]
                        else "cranelift: " + r["cranelift_err"][:60] if r.get("cranelift_err") else "run: %s" % json.dumps(r.get("run"))[:100])
                    s = cases[ns[0]]["c"]
                    chk.violation({"kind": "accepted-switch-not-built", "sum": s["ty"]["kind"], "wrap": s["ty"]["wrap"], "why": why[:40]},
                                  {"switch": short(s), "source": fns[ns[0]], "decls": T.decls, "why": why})
                else:
                    h = max(1, len(ns) // 4)
                    nxt += [ns[j:j + h] for j in range(0, len(ns), h)]
                continue
            lines = r["run"]["stdout"].split("\n")
            pos = 0
            for n in ns:
                x = cases[n]
                s = x["c"]
                want = [expected_line(T, s, ent) for ent in x["out"]]
                got = lines[pos:pos + s["ty"]["n"]]
                pos += s["ty"]["n"]
                nrun += 1
                if got != want:
                    chk.violation({"kind": "dispatch", "sum": s["ty"]["kind"], "wrap": s["ty"]["wrap"], "disc": s["ty"]["disc"]},
                                  {"switch": short(s), "source": fns[n], "decls": T.decls,
                                   "prescribed_per_variant": want, "observed_per_variant": got,
                                   "how": "one line per run-time variant: arm letter (by position) + payload bytes; "
                                          "_<k> = default arm and #is_variant says variant k"})
        todo = nxt
        rnd += 1
    for n in (runnable[5], runnable[len(runnable) // 2]):
        chk.sample({"switch": short(cases[n]["c"]), "accept": True,
                    "prescribed_per_variant": [expected_line(T, cases[n]["c"], e) for e in cases[n]["out"]]})
    chk.sample({"switch": short(cases[7]["c"]), "accept": cases[7]["accept"]})
    chk.cov["traces_validated_against_impl"] = nrun
    chk.cov["evaluations"] = len(cases)
    chk.cov["distinct_nontrivial"] = len(set(fns))
    chk.cov["accepted_and_run"] = nrun
    chk.cov["exhaustive"] = True
    chk.cov["rule"] = ("every switch of SwitchCheck.tla: enum shapes up to MaxEnum variants (payloads void / i32 / u8 / "
                       "struct / ^i32, automatic and custom discriminants incl. 0, 200, 255, counted up to 255 and past it), "
                       "?i32, ?^i32, str!i32, str!^i32, each also behind a distinct and as the payload of a variant-typed "
                       "scrutinee; arm lists up to MaxArms over own variants and one foreign variant (for optionals: a type "
                       "that is nil underneath), with / without default, shorthand / fully qualified / mixed, as a "
                       "statement and as a value whose first arm leaves the function")


def replay(path):
    v = json.load(open(path))
    print("\n".join(v["detail"].get("decls", [])))
    print(v["detail"]["source"])
    print(json.dumps({k: v["detail"].get(k) for k in ("prescribed_accept", "compiler_accepted", "diagnostics",
                                                      "prescribed_per_variant", "observed_per_variant")}))
    return 1
