"""C17 - type layouts obey the documented representation rules.  spec/Layout.tla."""
import json
import os
import subprocess

import common
from props.tyrel_common import sh

CT = {8: "int8_t", 16: "int16_t", 32: "int32_t", 64: "int64_t"}


def ctype(t):
    if t["k"] == "int":
        w = 64 if t["w"] == 255 else t["w"]
        return ("" if t["s"] else "u") + CT[w]
    if t["k"] == "float":
        return "float" if t["w"] == 32 else "double"
    return "uint8_t"     # bool, char


def gcc_offsets(chk, structs):
    """offsetof of every field of every struct, by the host C compiler"""
    src = ["#include <stdio.h>", "#include <stdint.h>", "#include <stddef.h>"]
    body = []
    for n, s in enumerate(structs):
        fields = "".join(" %s f%d;" % (ctype(m[1]), k) for k, m in enumerate(s["t"]["ms"]))
        src.append("struct S%d {%s };" % (n, fields))
        offs = ", ".join("(int)offsetof(struct S%d, f%d)" % (n, k) for k in range(len(s["t"]["ms"])))
        fmt = " ".join(["%d"] * len(s["t"]["ms"]))
        body.append('  printf("%s\\n", %s);' % (fmt, offs))
    src.append("int main(void) {")
    src += body
    src.append("  return 0; }")
    c = os.path.join(chk.wd, "offs.c")
    exe = os.path.join(chk.wd, "offs")
    with open(c, "w") as f:
        f.write("\n".join(src))
    r = subprocess.run(["gcc", "-o", exe, c], capture_output=True, text=True)
    if r.returncode != 0:
        raise common.ToolError("gcc failed: " + r.stderr[:500])
    out = subprocess.run([exe], capture_output=True, text=True).stdout.strip().split("\n")
    return [[int(x) for x in line.split()] for line in out]


def run(chk):
    level = "1" if chk.tier == "quick" else "2"
    res = common.run_tlc("LayoutUniv", "LayoutUniv.cfg", chk.wd, workers=1, timeout=600,
                         env={"LEVEL": level, "PTR": "64", "TRACE": "none"}, out_name="univ.out")
    chk.require_tlc_ok("LayoutUniv (universe level %s)" % level, res)
    univ = next(common.tlc_lines(res.out, "LU"))
    cl = next(common.tlc_lines(res.out, "CLAYOUT"))
    up = os.path.join(chk.wd, "lu.json")
    with open(up, "w") as f:
        json.dump(univ, f)
    # the spec's C operator against the host compiler (this validates the *spec*)
    if cl:
        got = gcc_offsets(chk, cl)
        for s, g in zip(cl, got):
            if list(s["offs"]) != g:
                raise common.ToolError("Layout.tla COffsets disagrees with gcc for %s: %s vs %s"
                                       % (sh(s["t"]), s["offs"], g))
        chk.cov["c_structs_validated_against_gcc"] = len(cl)
    total = 0
    for ptr in ("64", "32"):
        table = os.path.join(chk.wd, "lay%s.ndjson" % ptr)
        common.harness(["layout", "--universe", up, "--ptr", ptr, "--out", table])
        r = common.run_tlc("Layout", "Layout.cfg", chk.wd, workers=1, timeout=3000,
                           env={"LEVEL": level, "PTR": ptr, "TRACE": table},
                           out_name="lay%s.out" % ptr)
        chk.require_tlc_ok("Layout.tla on %s-bit layouts" % ptr, r)
        bad = list(common.tlc_lines(r.out, "BAD"))
        drift = list(common.tlc_lines(r.out, "DRIFT"))
        recs = list(common.read_ndjson(table))
        total += len(recs)
        chk.cov["traces_validated_against_impl"] += r.distinct - 1
        for b in bad:
            rr = recs[b["idx"] - 1]
            chk.violation({"kind": "layout", "why": b["why"], "ty": sh(rr["t"]), "ptr": ptr},
                          {"type": sh(rr["t"]), "pointer_bits": ptr, "why": b["why"],
                           "size": rr["size"], "align": rr["align"], "stride": rr["stride"],
                           "offsets": rr["offsets"], "tag": rr["tag"], "components": rr["subs"],
                           "term": rr["t"], "panic": rr["panic"],
                           "how": "codegen::verif_api::layouts([type], pointer_bits)"})
        for d in drift[:5]:
            rr = recs[d["idx"] - 1]
            chk.note_drift("Layout (M) differs from the code for %s at %s bits: size %d align %d "
                           "offsets %s tag %s" % (sh(rr["t"]), ptr, rr["size"], rr["align"],
                                                  rr["offsets"], rr["tag"]))
        for k in (300, 700):
            if k < len(recs):
                chk.sample({"type": sh(recs[k]["t"]), "ptr": ptr, "size": recs[k]["size"],
                            "align": recs[k]["align"], "offsets": recs[k]["offsets"],
                            "tag": recs[k]["tag"]})
    chk.cov["evaluations"] = total
    chk.cov["distinct_nontrivial"] = total
    chk.cov["exhaustive"] = True
    chk.cov["rule"] = ("every type of Layout.tla's universe (all primitives; arrays of length 0/1/3, "
                       "slices, pointers, optionals, distincts over them; error unions; all structs "
                       "of <= 3 members over 8 member types; 10 enum shapes and their variants; "
                       "level 2 adds constructors and structs over a depth-1 sample) at pointer "
                       "width 64 and 32; term-by-term completeness asserted by TLC")


def replay(path):
    print(json.dumps(json.load(open(path))["detail"], indent=1))
    return 1
