"""C16 - generic calls behave like calls to hand-substituted copies.

spec/CapySem.tla binds a call's comptime arguments (types and constants) like ordinary immutable
parameters - the beta-rule of the property.  This check generates programs whose functions have
comptime parameters (a type T, optionally a constant N; bodies written for "any integer T":
arithmetic in T, literals T.(k), casts to and from T, loops bounded by N, nested generic calls that
pass T through), instantiates each with several argument sets (equal ones repeated, different ones
interleaved), executes them and lets TLC validate the output against the interpreter.
"""
import json
import random

import capygen
import common
from capygen import I32, NONE, jty
from props import c01, c08

TYS = [("int", 1, False), ("int", 2, True), ("int", 4, True), ("int", 8, True), ("int", 4, False), ("int", 1, True)]


class GGen:
    def __init__(self, seed):
        self.r = random.Random(seed)
        self.n = 0
        self.late = {}

    def fresh(self, p):
        self.n += 1
        return "%s_%d" % (p, self.n)

    def tlit(self, k=None):
        k = self.r.randrange(0, 100) if k is None else k
        return {"e": "int", "ty": {"w": 0, "s": False}, "tyv": "T", "b": [k]}

    def texpr(self, vars_t, has_n, callee, d=0):
        """an expression of the generic type T"""
        r = self.r
        k = r.random()
        if d > 2 or k < 0.3:
            return {"e": "var", "n": r.choice(vars_t)} if (vars_t and r.random() < 0.7) else self.tlit()
        if k < 0.65:
            return {"e": "bin", "op": r.choice(["add", "sub", "mul", "and", "or", "xor"]),
                    "l": self.texpr(vars_t, has_n, callee, d + 1), "r": self.texpr(vars_t, has_n, callee, d + 1)}
        if k < 0.72:
            return {"e": "bin", "op": r.choice(["shl", "shr"]), "l": self.texpr(vars_t, has_n, callee, d + 1),
                    "r": self.tlit(r.randrange(0, 8))}
        if k < 0.8 and has_n:
            return {"e": "cast", "ty": {"w": 0, "s": False}, "tyv": "T", "x": {"e": "var", "n": "N"}}
        if k < 0.88:
            # through a concrete type and back
            mid = r.choice(TYS)
            return {"e": "cast", "ty": {"w": 0, "s": False}, "tyv": "T",
                    "x": {"e": "cast", "ty": jty(mid), "x": self.texpr(vars_t, has_n, callee, d + 1)}}
        if k < 0.96 and callee:
            name, cn = callee
            # the callee's constant: this function's own N passed on, or a literal
            nn = {"e": "var", "n": "N"} if (has_n and r.random() < 0.6) else {"e": "int", "ty": jty(I32), "b": [r.randrange(0, 4), 0, 0, 0], "plain": True}
            cargs = [{"e": "var", "n": "T"}] + ([nn] if cn else [])
            return self.call(name, cn, cargs, [self.texpr(vars_t, has_n, None, d + 1), self.texpr(vars_t, has_n, None, d + 1)])
        return {"e": "ifx", "c": {"e": "bin", "op": r.choice(["lt", "ge", "eq"]), "l": self.texpr(vars_t, has_n, None, d + 1),
                                  "r": self.texpr(vars_t, has_n, None, d + 1)},
                "t": {"e": "blk", "label": "", "ss": [], "tail": self.texpr(vars_t, has_n, None, d + 1)},
                "f": {"e": "blk", "label": "", "ss": [], "tail": self.texpr(vars_t, has_n, None, d + 1)}}

    def generic_fn(self, name, has_n, callee):
        r = self.r
        late = r.random() < 0.5          # a run-time parameter BEFORE the comptime ones
        self.late[name] = late
        vars_t = ["x", "y"]
        ss = []
        acc = self.fresh("a")
        ss.append({"s": "let", "n": acc, "x": self.texpr(vars_t, has_n, callee), "ty": "T", "mut": True})
        vars_t = vars_t + [acc]
        if has_n:
            i = self.fresh("i")
            body = {"e": "blk", "label": "", "ss": [
                {"s": "cset", "op": "add", "l": {"l": "var", "n": i}, "x": {"e": "int", "ty": jty(I32), "b": [1, 0, 0, 0]}},
                {"s": "set", "l": {"l": "var", "n": acc}, "x": self.texpr(vars_t, has_n, callee, 1)}], "tail": NONE}
            loop = {"s": "while", "label": "", "c": {"e": "bin", "op": "lt", "l": {"e": "var", "n": i}, "r": {"e": "var", "n": "N"}},
                    "body": body}
            ss.append({"s": "expr", "x": {"e": "blk", "label": "", "ss": [
                {"s": "let", "n": i, "x": {"e": "int", "ty": jty(I32), "b": [0, 0, 0, 0]}, "ty": I32, "mut": True}, loop], "tail": NONE}})
        if r.random() < 0.5:
            j = {"s": "return", "x": self.texpr(vars_t, has_n, None, 1)}
            ss.append({"s": "if", "c": {"e": "bin", "op": "gt", "l": {"e": "var", "n": "x"}, "r": {"e": "var", "n": "y"}},
                       "t": {"e": "blk", "label": "", "ss": [j], "tail": NONE}, "f": NONE})
        cparams = [{"n": "T", "kind": "type"}] + ([{"n": "N", "kind": "i32"}] if has_n else [])
        params = [{"n": "x", "ty": "T"}, {"n": "y", "ty": "T"}]
        fn = {"name": name, "cparams": cparams, "params": params, "ret": "T",
              "body": {"e": "blk", "label": "", "ss": ss, "tail": self.texpr(vars_t, has_n, callee)}}
        if late:
            fn["params"] = [{"n": "tag", "ty": I32}] + params
            fn["order"] = self.order_of(name, has_n)
        return fn

    def order_of(self, name, has_n):
        """declared parameter order of a generic with late comptime parameters: tag, T, [N], x, y"""
        return [("p", 0), ("c", 0)] + ([("c", 1)] if has_n else []) + [("p", 1), ("p", 2)]

    def call(self, name, has_n, cargs, args):
        c = {"e": "call", "f": name, "cargs": cargs, "args": args}
        if self.late.get(name):
            c["args"] = [{"e": "int", "ty": jty(I32), "b": [self.r.randrange(200), 0, 0, 0]}] + args
            c["order"] = self.order_of(name, has_n)
        return c

    def conc_lit(self, t):
        w = t[1]
        hi = (1 << (8 * w - (1 if t[2] else 0))) - 1
        v = min(self.r.choice([0, 1, 3, 100, 127, 200, 255, 1000, 40000, hi, hi - 5, self.r.randrange(0, 1 << 20)]), hi)
        return {"e": "int", "ty": jty(t), "b": list(v.to_bytes(w, "little"))}

    def program(self):
        r = self.r
        fns = []
        g0n = r.random() < 0.7
        fns.append(self.generic_fn("g0", g0n, None))
        g1n = r.random() < 0.5
        fns.append(self.generic_fn("g1", g1n, ("g0", g0n)))
        # an identity over any type: instantiated with aggregates too
        fns.append({"name": "same", "cparams": [{"n": "T", "kind": "type"}], "params": [{"n": "x", "ty": "T"}], "ret": "T",
                    "body": {"e": "blk", "label": "", "ss": [], "tail": {"e": "var", "n": "x"}}})
        ss = []
        insts = []
        for _ in range(r.randrange(3, 6)):
            g, hn = r.choice([("g0", g0n), ("g1", g1n)])
            insts.append((g, hn, r.choice(TYS), r.randrange(0, 4)))
        calls = []
        for inst in insts:
            for _ in range(r.randrange(1, 3)):
                calls.append(inst)
        calls += [r.choice(insts)]          # equal arguments again, later
        r.shuffle(calls)
        for g, hn, t, n in calls:
            cargs = [{"e": "type", "ty": jty(t)}] + ([{"e": "int", "ty": jty(I32), "b": [n, 0, 0, 0], "plain": True}] if hn else [])
            ss.append({"s": "print", "ty": t, "x": self.call(g, hn, cargs, [self.conc_lit(t), self.conc_lit(t)])})
        # aggregates through the generic identity: copy semantics are kept
        ss.append({"s": "let", "n": "arr_1", "ty": ("arr", 3, I32), "mut": True,
                   "x": {"e": "arr", "elem": I32, "es": [self.conc_lit(I32) for _ in range(3)]}})
        ss.append({"s": "let", "n": "arr_2", "ty": ("arr", 3, I32), "mut": True,
                   "x": {"e": "call", "f": "same", "cargs": [{"e": "type", "ty": {"w": 0, "s": False}, "text": "[3]i32"}],
                         "args": [{"e": "var", "n": "arr_1"}]}})
        ss.append({"s": "set", "l": {"l": "idx", "a": {"l": "var", "n": "arr_2"}, "i": {"e": "int", "ty": {"w": 8, "s": False}, "b": [1, 0, 0, 0, 0, 0, 0, 0], "usize": True}},
                   "x": self.conc_lit(I32)})
        for a in ("arr_1", "arr_2"):
            ss.append({"s": "print", "ty": I32, "x": {"e": "idx", "a": {"e": "var", "n": a},
                                                      "i": {"e": "int", "ty": {"w": 8, "s": False}, "b": [1, 0, 0, 0, 0, 0, 0, 0], "usize": True}}})
        ss.append({"s": "let", "n": "rec_1", "ty": capygen.REC_P, "mut": False,
                   "x": {"e": "call", "f": "same", "cargs": [{"e": "type", "ty": {"w": 0, "s": False}, "text": "P"}],
                         "args": [{"e": "rec", "ty": "P", "fs": [{"n": "a", "x": self.conc_lit(I32)}, {"n": "b", "x": self.conc_lit(("int", 1, False))}]}]}})
        ss.append({"s": "print", "ty": I32, "x": {"e": "fld", "x": {"e": "var", "n": "rec_1"}, "f": "a"}})
        # a distinct type and a struct type as comptime arguments of a generic that chooses between two values
        fns.append({"name": "pick", "cparams": [{"n": "T", "kind": "type"}],
                    "params": [{"n": "c", "ty": capygen.BOOL}, {"n": "a", "ty": "T"}, {"n": "b", "ty": "T"}], "ret": "T",
                    "body": {"e": "blk", "label": "", "ss": [], "tail": {
                        "e": "ifx", "c": {"e": "var", "n": "c"},
                        "t": {"e": "blk", "label": "", "ss": [], "tail": {"e": "var", "n": "a"}},
                        "f": {"e": "blk", "label": "", "ss": [], "tail": {"e": "var", "n": "b"}}}}})
        di = lambda: {"e": "cast", "ty": jty(I32), "tytext": "DI", "x": self.conc_lit(I32)}
        for _ in range(r.randrange(1, 3)):
            ss.append({"s": "print", "ty": I32, "x": {"e": "cast", "ty": jty(I32), "x": {
                "e": "call", "f": "pick", "cargs": [{"e": "type", "ty": {"w": 0, "s": False}, "text": "DI"}],
                "args": [{"e": "bool", "v": r.random() < 0.5}, di(), di()]}}})
        pl = lambda: {"e": "rec", "ty": "P", "fs": [{"n": "a", "x": self.conc_lit(I32)}, {"n": "b", "x": self.conc_lit(("int", 1, False))}]}
        ss.append({"s": "print", "ty": ("int", 1, False), "x": {"e": "fld", "f": "b", "x": {
            "e": "call", "f": "pick", "cargs": [{"e": "type", "ty": {"w": 0, "s": False}, "text": "P"}],
            "args": [{"e": "bool", "v": r.random() < 0.5}, pl(), pl()]}}})
        # generic functions whose body declares an enum that depends on a comptime parameter (its
        # payload type / its discriminants): each instantiation has an enum of its own
        var = lambda n: {"e": "var", "n": n}
        blk = lambda ss_, tail=NONE: {"e": "blk", "label": "", "ss": ss_, "tail": tail}
        OUT = ("enum", "Out", (("Win", "T"), ("Tie", None)))
        win = lambda x: {"e": "variant", "k": 1, "x": x, "sty": OUT, "raw": True}
        tie = {"e": "variant", "k": 2, "x": NONE, "sty": OUT, "raw": True}
        fns.append({"name": "gsel", "cparams": [{"n": "T", "kind": "type"}], "params": [{"n": "a", "ty": "T"}, {"n": "b", "ty": "T"}], "ret": "T",
                    "body": blk([
                        {"s": "typedecl", "text": "Out :: enum { Win: T, Tie };"},
                        {"s": "let", "n": "res", "ty": "Out", "mut": False, "noann": True, "x": {
                            "e": "ifx", "c": {"e": "bin", "op": "gt", "l": var("a"), "r": var("b")}, "t": blk([], win(var("a"))),
                            "f": blk([], {"e": "ifx", "c": {"e": "bin", "op": "gt", "l": var("b"), "r": var("a")},
                                          "t": blk([], win(var("b"))), "f": blk([], tie)})}},
                        {"s": "let", "n": "out", "ty": "T", "mut": True, "x": self.tlit()},
                        {"s": "switch", "x": var("res"), "bind": "r", "sty": OUT, "dflt": NONE, "arms": [
                            {"k": 1, "body": blk([{"s": "set", "l": {"l": "var", "n": "out"},
                                                   "x": {"e": "cast", "ty": {"w": 0, "s": False}, "tyv": "T", "x": var("r")}}])},
                            {"k": 2, "body": blk([{"s": "set", "l": {"l": "var", "n": "out"},
                                                   "x": {"e": "bin", "op": "xor", "l": var("a"), "r": self.tlit()}}])}]}],
                        var("out"))})
        LV = ("enum", "Lv", (("Lo", None), ("Hi", None)))
        fns.append({"name": "gcls", "cparams": [{"n": "B", "kind": "u8"}], "params": [{"n": "v", "ty": I32}, {"n": "th", "ty": I32}], "ret": I32,
                    "body": blk([
                        {"s": "typedecl", "text": "Lv :: enum { Lo | B, Hi };"},
                        {"s": "let", "n": "lv", "ty": "Lv", "mut": False, "noann": True, "x": {
                            "e": "ifx", "c": {"e": "bin", "op": "lt", "l": var("v"), "r": var("th")},
                            "t": blk([], {"e": "variant", "k": 1, "x": NONE, "sty": LV, "raw": True}),
                            "f": blk([], {"e": "variant", "k": 2, "x": NONE, "sty": LV, "raw": True})}},
                        {"s": "let", "n": "out", "ty": I32, "mut": True, "x": self.conc_lit(I32)},
                        {"s": "switch", "x": var("lv"), "bind": "w", "sty": LV, "arms": [
                            {"k": 1, "body": blk([{"s": "set", "l": {"l": "var", "n": "out"}, "x": self.conc_lit(I32)}])}],
                         "dflt": blk([{"s": "set", "l": {"l": "var", "n": "out"}, "x": self.conc_lit(I32)}])}],
                        var("out"))})
        sel_tys = r.sample(TYS, 3)
        bases = r.sample([3, 10, 40, 100, 200, 250], 3)
        more = []
        for t in sel_tys:
            for _ in range(r.randrange(1, 3)):
                a, b2 = self.conc_lit(t), self.conc_lit(t)
                more.append({"s": "print", "ty": t, "x": {"e": "call", "f": "gsel", "cargs": [{"e": "type", "ty": jty(t)}],
                                                          "args": r.choice([[a, b2], [a, a], [b2, a]])}})
        for bs in bases:
            for _ in range(r.randrange(1, 3)):
                more.append({"s": "print", "ty": I32, "x": {"e": "call", "f": "gcls",
                                                            "cargs": [{"e": "int", "ty": {"w": 1, "s": False}, "b": [bs], "plain": True}],
                                                            "args": [self.conc_lit(I32), self.conc_lit(I32)]}})
        r.shuffle(more)
        ss += more
        # every second program keeps its generic functions in an imported file
        if r.random() < 0.5:
            for f in fns:
                f["file"] = "lib"
        fns.append({"name": "main", "params": [], "ret": I32,
                    "body": {"e": "blk", "label": "", "ss": ss, "tail": {"e": "int", "ty": jty(I32), "b": [r.randrange(256), 0, 0, 0]}}})
        return {"fns": fns}


def run(chk):
    n = 120 if chk.tier == "quick" else 2500
    progs = [(GGen(chk.seed * 7919 + 16000 + k).program(), False) for k in range(n)]
    c01.run_programs(chk, progs, "gen")
    chk.cov["rule"] = ("seeded programs with functions that have comptime parameters (a type, optionally a constant), "
                       "bodies written for any integer type (arithmetic, literals T.(k), casts through concrete types, "
                       "loops bounded by the constant, nested generic calls passing the type on), 3-5 instantiations per "
                       "program called repeatedly and interleaved, a generic identity instantiated with an array and a "
                       "struct, generics whose body declares an enum that depends on the comptime parameter (payload type / "
                       "discriminants) with variants unified by if / else, a generic choice instantiated with a distinct and a struct type, run-time parameters before "
                       "the comptime ones, and (every second program) the generic functions kept in an imported file; executed and validated against CapySem.tla, which binds comptime arguments like parameters")


def replay(path):
    return c01.replay(path)
