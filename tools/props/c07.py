"""C07 - a program is built if and only if no error was reported.  spec/Pipeline.tla (the gate is the
guard of Report / Comptime plus the Gate invariant), traces validated by spec/TracePipeline.tla.

Inputs are near-valid programs: corpus programs and their single token-level mutations (a deleted
token, a swapped operator, a changed name ...), always with linking requested.  Crashes of the
front end / checker on garbage are C06's business; here a record is judged when the compiler
reached a verdict: no error reported => nothing flagged unsafe, object built, linked without
internal error; error reported => flagged unsafe, nothing generated.
"""
import json
import random

import common
import corpus
import pipeline_common as P

EARLY = ("panic:frontend", "panic:infer", "timeout", "render-failed", "stopped-without-outcome")


def inputs(chk):
    rng = random.Random(chk.seed + 7)
    base = P.base_programs()
    jobs = [("corpus:" + name, files) for name, files in base]
    nm = 1200 if chk.tier == "quick" else 30000
    for k in range(nm):
        name, files = rng.choice(base)
        files = dict(files)
        fn = rng.choice(sorted(files))
        files[fn] = corpus.mutate_tokens(rng, files[fn], 1)
        jobs.append(("tok1:" + name, files))
    jobs += generated_near_valid(chk, rng)
    from props import c06
    jobs += c06.regress_inputs()
    return jobs


def generated_near_valid(chk, rng):
    """well-typed programs of tools/capygen.py (the fragment of CapySem.tla: pointers, slices, sum
    types, generics-free functions, varargs, casts, ...) with ONE breaking change each: a
    mutability-, type-, scope- or arity-breaking change made on the abstract syntax, or a
    single-token mutation of the text"""
    import copy
    import capygen
    from props import c08
    out = []
    n = 240 if chk.tier == "quick" else 6000
    for k in range(n):
        g = capygen.Gen(chk.seed * 7001 + 70000 + k, size=8 + k % 10)
        p = g.program()
        kind = ("mut", "type", "scope", "tok", "none", "argdrop", "argdrop", "argadd")[k % 8]
        q = copy.deepcopy(p)
        lets, uses, calls = [], [], []

        def walk(x):
            if isinstance(x, dict):
                if x.get("s") == "let" and not x.get("lambda") and isinstance(x.get("ty"), (tuple, list)):
                    lets.append(x)
                if x.get("e") == "var":
                    uses.append(x)
                if x.get("e") == "call" and x.get("args"):
                    calls.append(x)
                for v in x.values():
                    walk(v)
            elif isinstance(x, list):
                for v in x:
                    walk(v)
        walk(q["fns"])
        if kind == "mut" and lets:
            for l in rng.sample(lets, min(3, len(lets))):
                l["mut"] = False                     # `x : T : v` - a later store to x is an error
        elif kind == "type" and lets:
            l = rng.choice(lets)
            l["ty"] = rng.choice([capygen.BOOL, capygen.I32, capygen.REC_P, ("arr", 2, capygen.U8), capygen.CHAR])
        elif kind == "scope" and uses:
            rng.choice(uses)["n"] = rng.choice(["undefined_zz", "v_9999", "main"])
        elif kind in ("argdrop", "argadd") and calls:
            # a call with one argument too few / too many; calls of the vararg functions first
            # (their regular parameters stand between / after vararg parameters)
            va = [c for c in calls if c["f"].startswith("va_")]
            c = rng.choice(va if va and rng.random() < 0.7 else calls)
            if kind == "argdrop":
                fixed = [j for j, a in enumerate(c["args"]) if not (isinstance(a, dict) and a.get("varargs"))]
                del c["args"][rng.choice(fixed) if fixed else rng.randrange(len(c["args"]))]
            else:
                c["args"].append({"e": "bool", "v": True})
        text = c08.prelude() + capygen.Render().program(q)
        if kind == "tok":
            text = corpus.mutate_tokens(rng, text, 1)
        out.append(("gen-%s:%d" % (kind, k), {"main.capy": text}))
    return out


ERRORS = ["bits :: 32; bits = 64;",                 # assignment to an immutable binding
          "w : i32 = \"str\";",                      # type mismatch
          "q :: 5; r := ^mut q;"]                    # ^mut of immutable data


def comptime_gate_programs():
    """functions (and globals) with several type-level comptime blocks, each printing its own
    marker byte at compile time; one of them contains an error that leaves every type known.
    Prescribed: the marker of the erroneous block never appears (nothing is generated for code an
    error was reported in)."""
    out = []
    for nblocks in (2, 3):
        for bad in range(1, nblocks + 1):
            for en, err in enumerate(ERRORS):
                for where in ("local", "global"):
                    decls, body = [], []
                    for k in range(1, nblocks + 1):
                        inner = "putchar(%d); %s %s" % (k, err if k == bad else "", ("u8", "i16", "u32")[k - 1])
                        if where == "local":
                            body.append("    T%d :: comptime { %s };" % (k, inner))
                        else:
                            decls.append("T%d :: comptime { %s };" % (k, inner))
                        body.append("    a%d : T%d = %d;" % (k, k, k))
                    src = "putchar :: (c: i32) -> i32 extern;\n" + "\n".join(decls) + "\nmain :: () {\n" + "\n".join(body) + "\n}\n"
                    out.append(("ctgate:%s:%dof%d:err%d" % (where, bad, nblocks, en), {"main.capy": src}, [bad]))
    # and error-free ones (every block may run)
    for nblocks in (1, 3):
        body = []
        for k in range(1, nblocks + 1):
            body.append("    T%d :: comptime { putchar(%d); %s };" % (k, k, ("u8", "i16", "u32")[k - 1]))
            body.append("    a%d : T%d = %d;" % (k, k, k))
        src = "putchar :: (c: i32) -> i32 extern;\nmain :: () {\n" + "\n".join(body) + "\n}\n"
        out.append(("ctgate:ok:%d" % nblocks, {"main.capy": src}, []))
    return out


def run(chk):
    from props import c06
    named = inputs(chk)
    gate = comptime_gate_programs()
    ct_bad = {}
    for name, files, bad in gate:
        ct_bad["j%d" % len(named)] = bad
        named.append((name, files))
    jobs = [P.job("j%d" % n, files, link=True) for n, (name, files) in enumerate(named)]
    results = common.run_batch(jobs, chk.wd, "c07", par=14)

    def on_bad(job, r, rec, b):
        ev = rec["ev"]
        at = b["at"] - 1
        event = ev[at] if 0 <= at < len(ev) else "end"
        if b["why"].startswith("event not allowed") and event in EARLY:
            return          # no verdict was reached: C06
        if b["why"].startswith("event not allowed") and event.startswith("signal") and "infer" not in ev:
            return
        name = named[int(job["id"][1:])][0]
        pan = r.get("panic") or {}
        if event.startswith("ct:"):
            kind = "erroneous-comptime-block-was-run"
        elif rec["herr"] or rec["terr"]:
            kind = "error-reported-but-" + event
        else:
            kind = "no-error-but-" + event
        sig = {"kind": kind, "site": c06.site_of(pan), "msg": c06.norm_msg((r.get("compiler_stdout_tail") or "")[:200] if (pan.get("msg") or "").startswith("exit:")
                                                                     else (pan.get("msg") or r.get("cranelift_err") or r.get("link") or ""))}
        chk.violation(sig, {"input": name, "events": ev, "why": b["why"], "front_end_error": rec["herr"],
                            "type_error": rec["terr"], "any_unsafe": rec["unsafe"], "entries": rec["entries"],
                            "panic": r.get("panic"), "compiler_output_tail": r.get("compiler_stdout_tail"), "cranelift_err": r.get("cranelift_err"), "link": r.get("link"),
                            "diagnostics": [(d["phase"], d["kind"], d["sev"]) for d in r["diags"]][:12],
                            "files": job["files"],
                            "how": "harness batch (stages of crates/capy main.rs through the library API, "
                                   "finish(entry, track_unsafe = true))"})
    recs = P.validate(chk, "c07", jobs, results, True, on_bad, ct_bad=ct_bad)
    chk.cov["comptime_gate_programs"] = len(gate)
    chk.cov["comptime_blocks_run_at_compile_time"] = sum(1 for r in recs for e in r["ev"] if e.startswith("ct:"))
    import collections
    chk.cov["outcomes"] = dict(collections.Counter(r["ev"][-1] if r["ev"] else "none" for r in recs))
    chk.cov["verdicts"] = {"no_error": sum(1 for r in recs if not r["herr"] and not r["terr"] and "infer" in r["ev"]),
                           "type_error": sum(1 for r in recs if r["terr"]),
                           "front_end_error": sum(1 for r in recs if r["herr"])}
    for k in (5, len(jobs) // 2, len(jobs) - 3):
        chk.sample({"input": named[k][0], "events": recs[k]["ev"], "herr": recs[k]["herr"], "terr": recs[k]["terr"],
                    "unsafe": recs[k]["unsafe"]})
    chk.cov["evaluations"] = len(jobs)
    chk.cov["distinct_nontrivial"] = len({json.dumps(j["files"], sort_keys=True) for j in jobs})
    chk.cov["rule"] = ("corpus programs and their single-token mutants, each compiled (and linked when no error was "
                       "reported) in its own process with unsafe-tracking on; every stage trace validated by "
                       "TracePipeline.tla; only records where the compiler reached a verdict are judged here")


def replay(path):
    v = json.load(open(path))
    print(json.dumps(v["detail"], indent=1)[:4000])
    return 1
