"""C10 - out-of-range indexing and wrong #unwrap always abort before touching memory.

spec/Bounds.tla is a small machine (print A; access; print memory; print B) whose state graph
covers every container kind x element kind x access kind x length x index (0..len+4, run-time
and literal) and every sum kind x current variant x requested variant x directive form.  TLC
checks the frame condition and "a fault stops everything" on it and emits, per behaviour, the
prescribed output and exit status; every behaviour is replayed as a real program.
"""
import json
import os
import struct

import common
from common import log
from props import c08

PRE = c08.prelude() + """id :: (x: usize) -> usize { x }
Agg :: struct { a: i32, b: u8 };
E :: enum { A: i32, B: u8, C };
U_enum :: struct { g1: i32, v: E, g2: i32 };
U_opt :: struct { g1: i32, v: ?i32, g2: i32 };
U_nptr :: struct { g1: i32, v: ?^i32, g2: i32 };
U_eu :: struct { g1: i32, v: str!i32, g2: i32 };
"""


def tname(e):
    return "i32" if e == "i32" else "Agg"


def lit(e, a, b=None):
    return str(a) if e == "i32" else "Agg.{ a = %d, b = %d }" % (a, b)


def esize(e):
    return 4 if e == "i32" else 8      # stride


def struct_decl(c):
    t, n = tname(c["elem"]), c["len"]
    if c["cont"] == "nout":
        ct = "[%d][2]%s" % (n, t)
    elif c["cont"] == "nin":
        ct = "[2][%d]%s" % (n, t)
    else:
        ct = "[%d]%s" % (n, t)
    return "struct { g1: i32, c: %s, g2: i32 }" % ct


def init_expr(c):
    e, n, t = c["elem"], c["len"], tname(c["elem"])
    el = lambda k: lit(e, 10 + k, 20 + k)
    other = lambda k: lit(e, 50 + k, 60 + k)
    if c["cont"] == "nout":     # [n][2]T, addressed element is [k][1]
        rows = ", ".join("%s.[%s, %s]" % (t, other(k), el(k)) for k in range(1, n + 1))
        return "[2]%s.[%s]" % (t, rows)
    if c["cont"] == "nin":      # [2][n]T, addressed element is [1][k]
        r0 = "%s.[%s]" % (t, ", ".join(other(k) for k in range(1, n + 1)))
        r1 = "%s.[%s]" % (t, ", ".join(el(k) for k in range(1, n + 1)))
        return "[%d]%s.[%s, %s]" % (n, t, r0, r1)
    return "%s.[%s]" % (t, ", ".join(el(k) for k in range(1, n + 1)))


def idx_fn(n, c):
    e, t = c["elem"], tname(c["elem"])
    I = str(c["idx"]) if c["lit"] else "i"
    L = ["k%d :: () {" % n,
         "    S :: %s;" % struct_decl(c),
         "    g := S.{ g1 = 101, c = %s, g2 = 102 };" % init_expr(c)]
    if not c["lit"]:
        L.append("    i := id(%d);" % c["idx"])
    cont = c["cont"]
    if cont == "arr":
        P = "g.c[%s]" % I
    elif cont == "slice":
        L.append("    s : []%s = g.c;" % t)
        P = "s[%s]" % I
    elif cont == "parr":
        L.append("    p := ^mut g.c;")
        P = "p[%s]" % I
    elif cont == "pparr":
        L.append("    p := ^mut g.c;")
        L.append("    pp := ^mut p;")
        P = "pp[%s]" % I
    elif cont == "pslice":
        L.append("    s : []%s = g.c;" % t)
        L.append("    ps := ^mut s;")
        P = "ps[%s]" % I
    elif cont == "nout":
        P = "g.c[%s][1]" % I
    else:
        P = "g.c[1][%s]" % I
    L.append("    putchar(65); putchar(32);")
    acc = c["acc"]
    if acc == "read":
        L.append("    r := %s;" % P)
        L.append("    putchar(82); emit(^r, %d); putchar(32);" % (4 if e == "i32" else 5))
    elif acc == "write":
        L.append("    %s = %s;" % (P, lit(e, 77, 7)))
    elif acc == "cwrite":
        L.append("    %s%s += 1;" % (P, "" if e == "i32" else ".a"))
    else:
        L.append("    q := ^mut %s;" % P)
        L.append("    q^ = %s;" % lit(e, 77, 7))
    L.append("    putchar(77); emit(^g, %d); putchar(32); putchar(66); nl();" % mem_size(c))
    L.append("}")
    return "\n".join(L)


def mem_size(c):
    n = c["len"] * (2 if c["cont"] in ("nout", "nin") else 1)
    return 4 + n * esize(c["elem"]) + 4


SUMV = {
    "enum": {1: "E.A.(41)", 2: "E.B.(42)", 3: "E.C"},
    "opt": {1: "43", 2: "nil"},
    "nptr": {1: "^t", 2: "nil"},
    "eu": {1: "44", 2: "\"-\""},
}
SUMT = {
    "enum": {1: "E.A", 2: "E.B", 3: "E.C"},
    "opt": {1: "i32", 2: "nil"},
    "nptr": {1: "^i32", 2: "nil"},
    "eu": {1: "i32", 2: "str"},
}


def unw_fn(n, c):
    s = c["sum"]
    L = ["k%d :: () {" % n, "    t : i32 = 43;",
         "    u := U_%s.{ g1 = 101, v = %s, g2 = 102 };" % (s, SUMV[s][c["cur"]]),
         "    putchar(65); putchar(32);"]
    want = SUMT[s][c["want"]]
    if c["form"] == "isvar":
        L.append("    x := #is_variant(u.v, %s);" % want)
        L.append("    putchar(86); emit(^x, 1); putchar(32);")
    else:
        call = "#unwrap(u.v)" if c["form"] == "unwrap1" else "#unwrap(u.v, %s)" % want
        # what is printed of the payload
        if (s, c["want"]) in (("enum", 3), ("opt", 2), ("nptr", 2)):
            L.append("    %s;" % call)
            L.append("    putchar(80); putchar(32);")
        else:
            L.append("    x := %s;" % call)
            if s == "nptr":
                L.append("    putchar(80); emit(x, 4); putchar(32);")
            elif (s, c["want"]) == ("eu", 2):
                L.append("    putchar(80); emit(rawptr.(x), 1); putchar(32);")
            elif (s, c["want"]) == ("enum", 2):
                L.append("    putchar(80); emit(^x, 1); putchar(32);")
            else:
                L.append("    putchar(80); emit(^x, 4); putchar(32);")
    L.append("    putchar(77); emit(^u.g1, 4); emit(^u.g2, 4); putchar(32); putchar(66); nl();")
    L.append("}")
    return "\n".join(L)


def fn_of(n, c):
    return idx_fn(n, c) if c["k"] == "idx" else unw_fn(n, c)


def i32s(bs):
    return [struct.unpack("<i", bytes(bs[k:k + 4]))[0] for k in range(0, len(bs) - 3, 4)]


def decode_elem(e, bs):
    a = struct.unpack("<i", bytes(bs[0:4]))[0]
    return [a] if e == "i32" else [a, bs[4]]


def observe(c, stdout, status):
    """stdout of the case -> token list in the vocabulary of Bounds.tla (plus anything unexpected)"""
    toks = []
    text = stdout
    fault = None
    if "entered unreachable code" in text:
        head, _, tail = text.partition("\n\nin ")
        msg, _, after = tail.partition("\n")
        kind = "index out of bounds" if "index out of bounds" in msg else \
            ("unwrap" if "#unwrap" in msg else "other:" + msg[-60:])
        fault = ["FAULT", kind]
        text = head
        extra = after.strip()
    else:
        extra = ""
    for w in text.split():
        if w == "A":
            toks.append(["A"])
        elif w == "B":
            toks.append(["B"])
        elif w[0] == "R":
            toks.append(["R", decode_elem(c["elem"], list(bytes.fromhex(w[1:])))])
        elif w[0] == "V":
            toks.append(["V", w[1:] == "01"])
        elif w[0] == "P":
            bs = list(bytes.fromhex(w[1:]))
            toks.append(["P", [] if not bs else ([bs[0]] if len(bs) == 1 else i32s(bs))])
        elif w[0] == "M":
            bs = list(bytes.fromhex(w[1:]))
            g1 = i32s(bs[0:4])[0]
            g2 = i32s(bs[-4:])[0]
            body = bs[4:-4]
            if c["k"] == "unw":
                toks.append(["M", g1, [], g2])
            else:
                st = esize(c["elem"])
                cells = [decode_elem(c["elem"], body[k:k + st]) for k in range(0, len(body), st)]
                n = c["len"]
                if c["cont"] == "nout":
                    mem = [cells[2 * k + 1] for k in range(n)]
                    rest = [cells[2 * k] for k in range(n)]
                elif c["cont"] == "nin":
                    mem = cells[n:2 * n]
                    rest = cells[0:n]
                else:
                    mem, rest = cells, []
                want_rest = [([50 + k] if c["elem"] == "i32" else [50 + k, 60 + k]) for k in range(1, n + 1)]
                if rest and rest != want_rest:
                    toks.append(["OTHER-ROW-CHANGED", rest])
                toks.append(["M", g1, mem, g2])
        else:
            toks.append(["?", w])
    if fault:
        toks.append(fault)
    if extra:
        toks.append(["AFTER-FAULT", extra[:80]])
    return toks


def norm(x):
    return json.loads(json.dumps(x))


def run(chk):
    cfg = "Bounds_q.cfg" if chk.tier == "quick" else "Bounds_t.cfg"
    res = common.run_tlc("Bounds", cfg, chk.wd, workers=8, timeout=3000, out_name="enum.out")
    chk.require_tlc_ok("Bounds.tla (frame condition, faults stop, per-behaviour prescription)", res)
    seen, cases = set(), []
    for x in common.tlc_lines(res.out, "CASE"):
        key = json.dumps(x["c"], sort_keys=True)
        if key not in seen:
            seen.add(key)
            cases.append(x)
    rejects = next(common.tlc_lines(res.out, "REJECTS"))
    os.remove(res.out)
    for r in rejects:
        cases.append({"c": r, "reject": True, "out": [], "status": 0})
    cases.sort(key=lambda x: json.dumps(x["c"], sort_keys=True))
    fns = [fn_of(n, x["c"]) for n, x in enumerate(cases)]
    verdicts = common.front_end_verdicts(chk, fns, PRE, "bd", per=150)
    nrej = 0
    runnable = []
    for n, (x, v) in enumerate(zip(cases, verdicts)):
        c = x["c"]
        if v["crash"]:
            chk.violation({"kind": "front-end-crash"}, {"case": c, "source": fns[n], "crash": v["crash"]})
            continue
        if v["accepted"] == x["reject"]:
            chk.violation({"kind": "static", "cont": c.get("cont"), "lit": c.get("lit"), "accepted": v["accepted"]},
                          {"case": c, "source": fns[n], "compiler_accepted": v["accepted"],
                           "diagnostics": v["kinds"], "prescribed": "rejected (literal index out of range of a "
                           "fixed-size array)" if x["reject"] else "accepted"})
            continue
        if x["reject"]:
            nrej += 1
            if "IndexOutOfBounds" not in v["kinds"]:
                chk.note_drift("literal out-of-range index rejected with %s instead of IndexOutOfBounds" % v["kinds"])
            continue
        runnable.append(n)
    ok_idx = [n for n in runnable if cases[n]["status"] == 0]
    fault_idx = [n for n in runnable if cases[n]["status"] == 1]

    def program(ns):
        return PRE + "\n".join(fns[n] for n in ns) + "\nmain :: () -> i32 {\n" + \
            "\n".join("    k%d();" % n for n in ns) + "\n    0\n}\n"
    observed = {}
    res_ok = common.run_case_programs(chk, ok_idx, program, "ok", per=100)
    for n, (line, why) in zip(ok_idx, res_ok):
        observed[n] = (line, 0, why)
    # faulting behaviours exit: one executable each
    jobs = [{"id": "f%d" % n, "files": {"main.capy": program([n])}, "run": True, "timeout_ms": 20000}
            for n in fault_idx]
    for n, r in zip(fault_idx, common.run_batch(jobs, chk.wd, "fault") if jobs else []):
        if r.get("run") and not r["has_errors"] and not r.get("panic"):
            observed[n] = (r["run"]["stdout"], r["run"].get("status"), "signal %s" % r["run"].get("signal")
                           if r["run"].get("signal") else "")
        else:
            observed[n] = (None, None, "not built: %s" % (r.get("panic") or r.get("cranelift_err") or
                                                          [d["kind"] for d in r["diags"]][:3]))
    nrun = 0
    notrun = {}
    for n in runnable:
        x = cases[n]
        c = x["c"]
        text, status, why = observed[n]
        if text is None:
            notrun.setdefault(why[:80], []).append(n)
            continue
        nrun += 1
        toks = observe(c, text, status)
        if norm(toks) != norm(x["out"]) or status != x["status"]:
            kind = "fault-missing" if x["status"] == 1 and status != 1 else \
                ("spurious-fault" if x["status"] == 0 and status != 0 else "output")
            chk.violation({"kind": kind, "k": c["k"], "cont": c.get("cont", c.get("sum")), "acc": c.get("acc", c.get("form")),
                           "elem": c.get("elem", "")},
                          {"case": c, "source": fns[n], "prescribed_tokens": x["out"], "prescribed_status": x["status"],
                           "observed_tokens": toks, "observed_status": status, "stdout": text[:400], "note": why,
                           "how": "A = marker before the access, R = element read, P = payload, V = #is_variant, "
                                  "M = guard | elements | guard after the access, B = marker after"})
    for n in (runnable[3], runnable[len(runnable) // 2], runnable[-4]):
        chk.sample({"case": cases[n]["c"], "prescribed": cases[n]["out"], "status": cases[n]["status"],
                    "stdout": (observed[n][0] or "")[:200]})
    chk.cov["traces_validated_against_impl"] = nrun
    chk.cov["evaluations"] = len(cases)
    chk.cov["distinct_nontrivial"] = len(set(fns))
    chk.cov["statically_rejected_as_prescribed"] = nrej
    chk.cov["faulting_behaviours"] = len(fault_idx)
    chk.cov["not_run"] = {k: len(v) for k, v in notrun.items()}
    chk.cov["exhaustive"] = True
    chk.cov["rule"] = ("every behaviour of Bounds.tla: 7 container kinds x {i32, struct} elements x {read, write, "
                       "+=, ^mut} x lengths {1, MaxLen} x indices 0..len+4 x {run-time, literal}; 4 sum kinds x "
                       "current x requested variant x {#unwrap, one-argument #unwrap, #is_variant}")
    if notrun:
        log("note: not run: %s" % {k: len(v) for k, v in notrun.items()})


def replay(path):
    v = json.load(open(path))
    print(PRE)
    print(v["detail"]["source"])
    print(json.dumps({k: v["detail"].get(k) for k in ("prescribed_tokens", "observed_tokens", "prescribed_status",
                                                      "observed_status")}))
    return 1
