"""C22 - lexing is total and lossless.  spec/Lexer.tla validates every recorded lexer run."""
import json
import os
import random

import common
import corpus

ALPHABET = [97, 101, 120, 98, 48, 49, 95, 46, 34, 39, 92, 47, 32, 10, 43, 45, 60, 61, 38, 124, 33,
            233, 160, 35]


def bad_and_drift(path):
    bad = list(common.tlc_lines(path, "BAD"))
    drift = list(common.tlc_lines(path, "DRIFT"))
    return bad, drift


def validate(chk, name, trace, expect_n, recs_loader):
    res = common.run_tlc("Lexer", "Lexer.cfg", chk.wd, workers=1, timeout=3000,
                         env={"TRACE": trace, "EXPECT_N": str(expect_n)}, out_name=name + ".out")
    chk.require_tlc_ok("Lexer.tla on " + name, res)
    bad, drift = bad_and_drift(res.out)
    chk.cov["traces_validated_against_impl"] += res.distinct - 1
    if bad or drift:
        recs = recs_loader()
        for b in bad:
            r = recs[b["idx"] - 1]
            text = "".join(chr(c) for c in r.get("cp", [])) if r.get("cp") else r.get("text", "")
            chk.violation({"kind": "lex", "why": b["why"], "text": text},
                          {"input": text, "why": b["why"], "tokens": r.get("toks"),
                           "panic": r.get("panic"), "how": "lexer::lex(input)"})
        for d in drift[:5]:
            r = recs[d["idx"] - 1]
            chk.note_drift("Lexer (M) token list differs for %r: model %s, code %s" % (
                "".join(chr(c) for c in r["cp"]), d["model"], r["toks"]))
    return res


def run(chk):
    maxlen = 3 if chk.tier == "quick" else 4
    n = sum(len(ALPHABET) ** k for k in range(maxlen + 1))
    enum = os.path.join(chk.wd, "enum.ndjson")
    common.harness(["lex-enum", "--alphabet", json.dumps(ALPHABET), "--maxlen", str(maxlen),
                    "--out", enum, "--par", "8"])
    validate(chk, "enum", enum, n, lambda: list(common.read_ndjson(enum)))
    for k, r in enumerate(common.read_ndjson(enum)):
        if k in (700, 9000, 14000):
            chk.sample({"input": "".join(chr(c) for c in r["cp"]), "tokens": r["toks"]})
    chk.cov["evaluations"] += n
    chk.cov["exhaustive"] = True
    # random unicode + corpus + mutations (long records: tiling only)
    rng = random.Random(chk.seed + 22)
    texts = [t for _, t in corpus.all_texts()]
    nr = 1500 if chk.tier == "quick" else 30000
    texts += [corpus.random_unicode(rng, rng.randrange(1, 20)) for _ in range(nr)]
    texts += [t for _, t in corpus.mutant_stream(chk.seed + 23, nr)]
    texts += [corpus.random_unicode(rng, 30000), corpus.token_soup(rng, 12000)]
    tin = os.path.join(chk.wd, "texts.in")
    with open(tin, "w") as f:
        for t in texts:
            f.write(json.dumps(t[:65536]) + "\n")
    tout = os.path.join(chk.wd, "texts.ndjson")
    common.harness(["lex-file", "--in", tin, "--out", tout])

    def load():
        recs = list(common.read_ndjson(tout))
        for r, t in zip(recs, texts):
            r["text"] = t[:200]
        return recs
    validate(chk, "texts", tout, 0, load)
    chk.cov["evaluations"] += len(texts)
    chk.cov["distinct_nontrivial"] = n + len(set(texts))
    chk.cov["rule"] = ("every string of length <= %d over the 24-symbol alphabet (count asserted by "
                       "TLC), plus corpus files, random Unicode strings and corpus mutations up to "
                       "64 KiB; each is one lexer run validated by Lexer.tla" % maxlen)
    chk.assumptions += ["records longer than 24 bytes are checked for tiling/kind-name/"
                        "char-boundary only (no per-kind recogniser)"]


def replay(path):
    v = json.load(open(path))
    print(json.dumps(v["detail"], indent=1))
    return 1
