"""C27 - distinct compiled entities get distinct symbol names.  spec/Mangle.tla, MangleModel.tla."""
import json
import os

import common


def pth(d):
    p = d["path"]
    return ("<mod-dir>/" if p["mod"] else "") + "/".join(x["raw"] for x in p["dirs"] + [p["file"]])


def ent(d):
    e = d["ent"]
    s = e["name"]["raw"] if e["k"] == "global" else "lambda#%d" % e["idx"]
    if e["gen"] >= 0:
        s += "<generic %d>" % e["gen"]
    if e["ct"] >= 0:
        s += " comptime#%d" % e["ct"] + (" data '%s'" % e["data"] if e["data"] else "")
    return s


def classify(a, b):
    """which named deviation of Mangle.tla explains that a and b share a symbol"""
    def comps(d):
        p = d["path"]
        return p["dirs"] + [p["file"]]
    ca, cb = comps(a), comps(b)
    def has_src(c):
        return len(c) >= 2 and c[1]["raw"] == "src"
    if has_src(ca) or has_src(cb) or len(ca) != len(cb):
        return "F27c-src-skip"
    if any(x["raw"] != y["raw"] and x["norm"] == y["norm"] for x, y in zip(ca, cb)):
        return "F27b-dot-to-dash"
    return "F27a-digit-rule"


def run(chk):
    # design level: the scheme as coded is not injective, the repaired one is
    for cfg, name in (("Mangle_fixed.cfg", "repaired scheme injective on the universe"),
                      ("Mangle_ascoded.cfg", "scheme as coded: colliding path groups listed")):
        r = common.run_tlc("MangleModel", cfg, chk.wd, workers=1, timeout=900,
                           env={"TRACE": "none"}, out_name=cfg + ".out")
        chk.require_tlc_ok("MangleModel " + name, r)
        for c in common.tlc_lines(r.out, "COLLISIONS"):
            chk.cov["model_collision_groups_as_coded"] = len(c)
    r = common.run_tlc("MangleUniv", "MangleUniv.cfg", chk.wd, workers=1, timeout=600,
                       env={"TRACE": "none"}, out_name="univ.out")
    chk.require_tlc_ok("MangleUniv", r)
    descs = next(common.tlc_lines(r.out, "DESCS"))
    dp = os.path.join(chk.wd, "descs.json")
    with open(dp, "w") as f:
        json.dump(descs, f)
    os.remove(r.out)
    table = os.path.join(chk.wd, "mangle.ndjson")
    common.harness(["mangle", "--descs", dp, "--out", table, "--root", os.path.join(chk.wd, "root")])
    r = common.run_tlc("Mangle", "Mangle.cfg", chk.wd, workers=1, timeout=3000,
                       env={"TRACE": table}, out_name="mangle.out")
    chk.require_tlc_ok("Mangle.tla on recorded symbols", r)
    recs = list(common.read_ndjson(table))
    chk.cov["traces_validated_against_impl"] = r.distinct - 1
    for b in common.tlc_lines(r.out, "BAD"):
        x = recs[b["idx"] - 1]
        det = {"why": b["why"], "symbol": x["sym"], "entity": ent(x["d"]), "file": pth(x["d"]),
               "panic": x["panic"], "how": "codegen::verif_api::mangle_* on the descriptor"}
        sig = {"kind": "mangle", "why": b["why"], "file": pth(x["d"]), "entity": ent(x["d"])}
        if b["other"]:
            y = recs[b["other"] - 1]
            det["other_entity"] = ent(y["d"])
            det["other_file"] = pth(y["d"])
            sig["other"] = pth(y["d"]) + " " + ent(y["d"])
        chk.violation(sig, det)
    for k in common.tlc_lines(r.out, "KNOWN"):
        x, y = recs[k["idx"] - 1], recs[k["other"] - 1]
        cls = classify(x["d"], y["d"])
        chk.violation({"kind": "collision", "class": cls},
                      {"class": cls, "symbol": x["sym"], "a": pth(x["d"]) + " :: " + ent(x["d"]),
                       "b": pth(y["d"]) + " :: " + ent(y["d"])})
    for d in list(common.tlc_lines(r.out, "DRIFT"))[:5]:
        x = recs[d["idx"] - 1]
        chk.note_drift("Mangle (M) gives %s, the code %s for %s :: %s" % (
            d["model"], x["sym"], pth(x["d"]), ent(x["d"])))
    for k in (5, 5000, 12000):
        chk.sample({"file": pth(recs[k]["d"]), "entity": ent(recs[k]["d"]), "symbol": recs[k]["sym"]})
    chk.cov["evaluations"] = len(recs)
    chk.cov["distinct_nontrivial"] = len({x["sym"] for x in recs})
    chk.cov["exhaustive"] = True
    chk.cov["rule"] = ("every descriptor of Mangle.tla's universe: 241 file paths (<= 2 directories "
                       "over {a,1,a1,f1,a.b,a-b,src,1a} x 3 files, plus module paths) x 64 entities "
                       "(globals, lambdas, generic instances, comptime blocks and their data); "
                       "distinct = distinct symbols")


def replay(path):
    print(json.dumps(json.load(open(path))["detail"], indent=1))
    return 1
