"""C21 - builds are reproducible.  spec/Repro.tla: a history of compilations is accepted iff every
input keeps the outcome (object hash, rendered diagnostics) of its first compilation.

History: every input is compiled in three fresh processes (address-space randomisation on - the
compiler hashes interned types by address), once after an unrelated program was compiled in the
same process (process-global tables), and - programs of several files - with the other files
registered in reverse order before the import work-list finds them.
"""
import hashlib
import json
import os
import random

import common
import corpus
import pipeline_common as P
from common import log


def norm_diags(r, sort):
    out = []
    for d in r["diags"]:
        base = os.path.dirname(d["file"]) + "/" if d["file"] else ""
        text = d["text"].replace(base, "") if base else d["text"]
        out.append("%s|%s|%s|%d|%d|%s" % (d["phase"], d["kind"], os.path.basename(d["file"]), d["start"], d["end"], text))
    if sort:
        out.sort()
    return hashlib.sha256("\n".join(out).encode()).hexdigest()[:24]


def inputs(chk):
    rng = random.Random(chk.seed + 21)
    base = P.base_programs()
    rng.shuffle(base)
    nvalid = 14 if chk.tier == "quick" else 120
    ninvalid = 14 if chk.tier == "quick" else 200
    progs = []
    multi = [b for b in base if len(b[1]) > 1]
    single = [b for b in base if len(b[1]) == 1]
    for name, files in (multi[:nvalid // 2] + single[:nvalid - nvalid // 2]):
        progs.append((name, files))
    # programs whose object file holds comptime data with bytes that belong to no value (padding,
    # the space behind the active variant of a sum type), and generated programs of tools/capygen.py
    d = os.path.join(os.path.dirname(os.path.abspath(__file__)), "..", "c21_inputs")
    for f in sorted(os.listdir(d)):
        progs.append(("c21_inputs/" + f, {"main.capy": open(os.path.join(d, f)).read()}))
    import capygen
    from props import c08
    for k in range(6 if chk.tier == "quick" else 60):
        text = c08.prelude() + capygen.Render().program(capygen.Gen(chk.seed * 2111 + 21000 + k, size=10 + k % 8).program())
        progs.append(("capygen:%d" % k, {"main.capy": text}))
    for k in range(ninvalid):
        name, files = rng.choice(base)
        files = dict(files)
        fn = rng.choice(sorted(files))
        files[fn] = corpus.mutate_tokens(rng, files[fn], rng.randrange(1, 3))
        progs.append(("tok:" + name, files))
    return progs, base


def run(chk):
    progs, base = inputs(chk)
    rng = random.Random(chk.seed + 121)
    jobs, meta = [], []
    for n, (name, files) in enumerate(progs):
        iid = hashlib.sha256(json.dumps(files, sort_keys=True).encode()).hexdigest()[:16]
        others = sorted(f for f in files if f != "main.capy")
        variants = [("fresh1", {}), ("fresh2", {}), ("fresh3", {}),
                    ("after-unrelated", {"warm": rng.choice(base)[1]})]
        if others:
            variants.append(("files-reversed", {"file_order": list(reversed(others))}))
            variants.append(("files-forward", {"file_order": others}))
        for vname, extra in variants:
            j = P.job("j%d" % len(jobs), files, link=False, timeout=60000)
            j.update(extra)
            jobs.append(j)
            meta.append((n, iid, vname))
    results = common.run_batch(jobs, chk.wd, "repro", par=12)
    recs = []
    for (n, iid, vname), r in zip(meta, results):
        crashed = bool(r.get("panic") or r.get("crash"))
        recs.append({"input": iid, "variant": vname,
                     "obj": r["obj_sha"] if not crashed else "crash:" + (r.get("crash") or r["panic"]["msg"][:40]),
                     # with another registration order the per-file order of the output may differ:
                     # the diagnostics are then compared as a multiset
                     "diag": norm_diags(r, sort=True), "diag_ordered": norm_diags(r, sort=False)})
    # the ordered diagnostic text must agree among the variants that supply the files the same way
    for rec in recs:
        if not rec["variant"].startswith("files-"):
            rec["diag"] = rec["diag"] + "/" + rec["diag_ordered"]
    # files-* variants are judged against each other and (multiset) against fresh1: give them the
    # multiset hash of fresh1's form
    first = {}
    for rec in recs:
        if rec["variant"] == "fresh1":
            first[rec["input"]] = rec
    for rec in recs:
        if rec["variant"].startswith("files-"):
            f = first[rec["input"]]
            rec["diag"] = rec["diag"] + "/" + (f["diag_ordered"] if rec["diag"] == f["diag"].split("/")[0] else "reordered-and-different")
    recs += cli_history(chk, progs)
    trace = os.path.join(chk.wd, "history.ndjson")
    common.write_ndjson(trace, [{k: r[k] for k in ("input", "variant", "obj", "diag")} for r in recs])
    chk.cov["cli_builds"] = sum(1 for r in recs if r["variant"].startswith("cli-"))
    res = common.run_tlc("Repro", "Repro.cfg", chk.wd, workers=1, timeout=1800, env={"TRACE": trace}, dfs=True,
                         out_name="repro.out")
    chk.require_tlc_ok("Repro.tla on the recorded history", res)
    chk.cov["traces_validated_against_impl"] = len(recs)
    seen = set()
    for b in common.tlc_lines(res.out, "BAD"):
        k = b["idx"] - 1
        if k in seen:
            continue
        seen.add(k)
        if k >= len(meta):
            r = recs[k]
            chk.violation({"kind": "cli-object", "variant": r["variant"]},
                          {"program": r.get("name"), "variant": r["variant"], "first_outcome": b["first"],
                           "this_outcome": {"obj": r["obj"], "diag": r["diag"]}, "files": r.get("files"),
                           "how": "the repository's CLI (capy build FILE -o app --no-exec) in one working directory: "
                                  "%s; sha256 of out/app.o" % r["variant"]})
            continue
        n, iid, vname = meta[k]
        what = "object" if recs[k]["obj"] != b["first"]["obj"] else "diagnostics"
        chk.violation({"kind": what, "variant": vname},
                      {"program": progs[n][0], "variant": vname, "first_outcome": b["first"],
                       "this_outcome": {"obj": recs[k]["obj"], "diag": recs[k]["diag"]},
                       "files": progs[n][1], "job_extra": {kk: jobs[k][kk] for kk in ("file_order",) if kk in jobs[k]},
                       "how": "harness batch: same files compiled again (%s); object sha256 / rendered diagnostics differ" % vname})
    nobj = len({r["input"] for r in recs if r["obj"] and not r["obj"].startswith("crash")})
    chk.sample({"program": progs[0][0], "variants": [(r["variant"], r["obj"][:12], r["diag"][:12]) for r in recs[:4]]})
    chk.cov["evaluations"] = len(recs)
    chk.cov["distinct_nontrivial"] = len({r["input"] for r in recs})
    chk.cov["inputs_with_object"] = nobj
    chk.cov["rule"] = ("corpus programs (examples, test sources; several files where the test has them), programs with "
                       "comptime data that contains padding / inactive payload bytes, generated programs (capygen) and "
                       "token-mutated (mostly invalid) versions; each compiled 4-6 times: three fresh processes, "
                       "after an unrelated program in the same process, other files pre-registered in reverse / "
                       "forward order; a history of (input, object hash, diagnostics hash)")


def cli_history(chk, progs):
    """object files written by the CLI itself: the same program built into a clean out/ directory,
    built twice in a row, and built after a LARGER and after a SMALLER program was built to the same
    output name in the same working directory"""
    import shutil
    import subprocess
    cli = os.path.join(common.HARNESS_DIR, "target", "debug", "capy-cli")
    if not os.path.exists(cli):
        raise common.ToolError("capy-cli was not built")
    valid = [(n, f) for n, f in progs if not n.startswith("tok:") and len(f) == 1][:(4 if chk.tier == "quick" else 20)]
    small = "main :: () -> i32 { 42 }\n"
    big = open(os.path.join(common.REPO, "examples", "structs.capy")).read()
    out = []

    def build(wd, text, name="main.capy"):
        with open(os.path.join(wd, name), "w") as f:
            f.write(text)
        r = subprocess.run([cli, "build", name, "--mod-dir", common.REPO, "--no-exec", "-o", "app", "--color", "never"],
                           cwd=wd, capture_output=True, text=True, timeout=120, errors="replace")
        p = os.path.join(wd, "out", "app.o")
        if r.returncode != 0 or not os.path.exists(p):
            return "no-object:rc=%d" % r.returncode
        return hashlib.sha256(open(p, "rb").read()).hexdigest()
    for k, (name, files) in enumerate(valid):
        text = files["main.capy"]
        iid = "cli:" + hashlib.sha256(text.encode()).hexdigest()[:16]
        for variant, before in (("cli-clean", []), ("cli-twice", [text]), ("cli-after-larger", [big]),
                                ("cli-after-smaller", [small])):
            wd = os.path.join(chk.wd, "cli%d_%s" % (k, variant))
            shutil.rmtree(wd, ignore_errors=True)
            os.makedirs(wd)
            for t in before:
                build(wd, t, "prev.capy" if t is not text else "main.capy")
            h = build(wd, text)
            shutil.rmtree(wd, ignore_errors=True)
            out.append({"input": iid, "variant": variant, "obj": h, "diag": "-", "name": name, "files": files})
    return out


def replay(path):
    print(json.dumps(json.load(open(path))["detail"], indent=1)[:4000])
    return 1
