"""C08 - integer and float operations and casts have exact two's-complement semantics.

spec/Arith.tla (over spec/BV.tla) defines every operator and cast on byte sequences.
spec/ArithMC.tla enumerates the boundary domain (TLC's state graph); each case is compiled into a
real program (operands built from bytes at run time, so literals play no part), executed at run
time and inside `comptime`, and the printed result bytes are validated against Arith.tla by TLC
(spec/TraceArith.tla).  Random operands go the same way.
"""
import json
import random
import struct

import common
from common import log

OPS = {"add": "+", "sub": "-", "mul": "*", "div": "/", "rem": "%", "and": "&", "or": "|",
       "xor": "~", "shl": "<<", "shr": ">>", "lt": "<", "le": "<=", "gt": ">", "ge": ">=",
       "eq": "==", "ne": "!="}
CMP = ("lt", "le", "gt", "ge", "eq", "ne")


def ity(w, s, alt=False):
    if w == 8 and alt:
        return "isize" if s else "usize"
    return ("i" if s else "u") + str(8 * w)


def fty(fw):
    return "f32" if fw == 4 else "f64"


ALL_TYS = [ity(w, s) for w in (1, 2, 4, 8, 16) for s in (True, False)] + ["isize", "usize", "f32", "f64"]
SIZE = {**{ity(w, s): w for w in (1, 2, 4, 8, 16) for s in (True, False)}, "isize": 8, "usize": 8,
        "f32": 4, "f64": 8}


def prelude():
    out = ["""putchar :: (c: i32) -> i32 extern;
to_raw :: (ptr: rawptr) -> usize #builtin("const_rawptr_to_usize");
from_raw :: (raw: usize) -> rawptr #builtin("usize_to_const_rawptr");
hexd :: (n: u8) { if n < 10 { putchar(i32.(n) + 48); } else { putchar(i32.(n) + 87); } }
emit_u8 :: (b: u8) { hexd(b >> 4); hexd(b & 15); }
emit :: (p: rawptr, n: usize) {
    i : usize = 0;
    while i < n {
        b := (^u8.(from_raw(to_raw(p) + i)))^;
        emit_u8(b);
        i += 1;
    }
}
nl :: () { putchar(10); }
"""]
    return "\n".join(out) + "\n"


def ld(name, t, bs):
    """statements defining `name : t` from its bytes (no literal of type t, no call: operand
    construction must not depend on the literal rules or on the calling convention)"""
    return "%s_b := u8.[%s]; %s := (^%s.(rawptr.(^%s_b)))^; " % (
        name, ", ".join(str(b) for b in bs), name, t, name)


def fbytes(k4, fw):
    return list(struct.pack("<f" if fw == 4 else "<d", k4 / 4.0))


def div_defined(c):
    a, b = c["a"], c["b"]
    if all(x == 0 for x in b):
        return False
    if c["s"] and all(x == 255 for x in b) and a[-1] == 128 and all(x == 0 for x in a[:-1]):
        return False
    return True


def body(c, alt):
    """statements computing the case and emitting its result bytes (no newline)"""
    k = c["k"]
    if k == "bin":
        t = ity(c["w"], c["s"], alt)
        pre = ld("a", t, c["a"]) + ld("b", t, c["b"])
        if c["op"] in ("div", "rem"):
            return pre + "q := a / b; r := a %% b; emit(^q, %d); emit(^r, %d);" % (c["w"], c["w"])
        n = 1 if c["op"] in CMP else c["w"]
        return pre + "r := a %s b; emit(^r, %d);" % (OPS[c["op"]], n)
    if k == "un":
        t = ity(c["w"], c["s"], alt)
        return ld("a", t, c["a"]) + "r := %sa; emit(^r, %d);" % ("-" if c["op"] == "neg" else "~", c["w"])
    if k == "cast":
        t = ity(c["w"], c["s"], alt)
        t2 = ity(c["w2"], c["s2"], alt)
        return ld("a", t, c["a"]) + "r := %s.(a); emit(^r, %d);" % (t2, c["w2"])
    if k == "i2f":
        t = ity(c["w"], c["s"], alt)
        return ld("a", t, c["a"]) + "r := %s.(a); emit(^r, %d);" % (fty(c["fw"]), c["fw"])
    if k == "f2i":
        t2 = ity(c["w2"], c["s2"], alt)
        return ld("a", fty(c["fw"]), c["a"]) + "r := %s.(a); emit(^r, %d);" % (t2, c["w2"])
    if k == "f2f":
        return ld("a", fty(c["fw"]), c["a"]) + "r := %s.(a); emit(^r, %d);" % (fty(c["fw2"]), c["fw2"])
    if k == "fbin":
        t = fty(c["fw"])
        n = 1 if c["op"] in CMP else c["fw"]
        return ld("a", t, fbytes(c["ka"], c["fw"])) + ld("b", t, fbytes(c["kb"], c["fw"])) + \
            "r := a %s b; emit(^r, %d);" % (OPS[c["op"]], n)
    if k == "bbin":
        op = {"land": "&&", "lor": "||", "and": "&", "or": "|", "xor": "~", "eq": "==", "ne": "!="}[c["op"]]
        return ld("a", "bool", c["a"]) + ld("b", "bool", c["b"]) + "r := a %s b; emit(^r, 1);" % op
    if k == "bnot":
        return ld("a", "bool", c["a"]) + "r := !a; emit(^r, 1);"
    if k == "ccmp":
        return ld("a", "char", c["a"]) + ld("b", "char", c["b"]) + "r := a %s b; emit(^r, 1);" % OPS[c["op"]]
    if k == "b2i":
        t2 = ity(c["w2"], c["s2"], alt)
        return ld("a", "bool", c["a"]) + "r := %s.(a); emit(^r, %d);" % (t2, c["w2"])
    if k == "c2i":
        t2 = ity(c["w2"], c["s2"], alt)
        return ld("a", "char", c["a"]) + "r := %s.(a); emit(^r, %d);" % (t2, c["w2"])
    if k == "i2c":
        return ld("a", "u8", c["a"]) + "r := char.(a); emit(^r, 1);"
    if k == "fneg":
        t = fty(c["fw"])
        return ld("a", t, fbytes(c["ka"], c["fw"])) + "r := -a; emit(^r, %d);" % c["fw"]
    raise ValueError(k)


def comptime_body(c, alt):
    """the same computation inside a comptime block; the block's value is printed at run time"""
    b = body(c, alt)
    # "<stmts>; r := EXPR; emit(^r, n);"  ->  r := comptime { <stmts>; EXPR }; emit(^r, n);
    if c["k"] == "bin" and c["op"] in ("div", "rem"):
        pre, rest = b.split("q := ")
        return ("q := comptime { %s a / b }; r := comptime { %s a %% b }; emit(^q, %d); emit(^r, %d);"
                % (pre, pre, c["w"], c["w"]))
    pre, rest = b.split("r := ")
    expr, em = rest.split("; emit(")
    return "r := comptime { %s %s }; emit(%s" % (pre, expr, em)


def program(cases):
    parts = [prelude(), "main :: () -> i32 {"]
    for c in cases:
        fn = comptime_body if c["m"] == "comptime" else body
        parts.append("    { %s nl(); }" % fn(c["c"], c["alt"]))
    parts.append("    0\n}")
    return "\n".join(parts)


def skip(c):
    return c["k"] == "bin" and c["op"] in ("div", "rem") and not div_defined(c)


def rnd_bytes(rng, n):
    r = rng.random()
    if r < 0.15:
        return [rng.choice((0, 255))] * n
    if r < 0.3:      # small magnitude
        v = rng.randrange(-300, 300)
        return list((v & ((1 << (8 * n)) - 1)).to_bytes(n, "little"))
    return [rng.randrange(256) for _ in range(n)]


def random_cases(rng, n):
    out = []
    for _ in range(n):
        w = rng.choice((1, 2, 4, 8, 16))
        s = rng.random() < 0.5
        kind = rng.choice(("bin", "bin", "bin", "un", "cast", "i2f", "f2i", "shift"))
        if kind == "bin":
            op = rng.choice(("add", "sub", "mul", "div", "rem", "and", "or", "xor") + CMP)
            out.append({"k": "bin", "op": op, "w": w, "s": s, "a": rnd_bytes(rng, w), "b": rnd_bytes(rng, w)})
        elif kind == "shift":
            amt = rng.randrange(8 * w)
            out.append({"k": "bin", "op": rng.choice(("shl", "shr")), "w": w, "s": s,
                        "a": rnd_bytes(rng, w), "b": [amt] + [0] * (w - 1)})
        elif kind == "un":
            out.append({"k": "un", "op": "neg" if s else "bnot", "w": w, "s": s, "a": rnd_bytes(rng, w)})
        elif kind == "cast":
            out.append({"k": "cast", "w": w, "s": s, "a": rnd_bytes(rng, w),
                        "w2": rng.choice((1, 2, 4, 8, 16)), "s2": rng.random() < 0.5})
        elif kind == "i2f":
            out.append({"k": "i2f", "w": w, "s": s, "a": rnd_bytes(rng, w), "fw": rng.choice((4, 8))})
        else:
            fw = rng.choice((4, 8))
            # a finite float of moderate magnitude
            v = rng.uniform(-1, 1) * 2.0 ** rng.randrange(0, 70)
            bs = list(struct.pack("<f" if fw == 4 else "<d", v))
            out.append({"k": "f2i", "fw": fw, "a": bs, "w2": w, "s2": s})
    return out


def family(c):
    return "%s:%s:%s" % (c["k"], c.get("op", ""), c.get("w", c.get("fw")))


def describe(c, alt=False):
    return body(c, alt)


def run(chk):
    rng = random.Random(chk.seed + 8)
    cfg = "ArithMC_q.cfg" if chk.tier == "quick" else "ArithMC_t.cfg"
    res = common.run_tlc("ArithMC", cfg, chk.wd, workers=8, timeout=3000, out_name="enum.out")
    chk.require_tlc_ok("ArithMC.tla boundary-domain enumeration", res)
    seen = set()
    enum = []
    for c in common.tlc_lines(res.out, "CASE"):
        key = json.dumps(c, sort_keys=True)
        if key not in seen:
            seen.add(key)
            enum.append(c)
    import os
    os.remove(res.out)
    nrand = 3000 if chk.tier == "quick" else 40000
    rnd = random_cases(rng, nrand)
    cases = []
    for n, c in enumerate(enum + rnd):
        if skip(c):
            continue
        alt = (c.get("w") == 8 or c.get("w2") == 8) and (n % 2 == 1)
        cases.append({"c": c, "m": "run", "alt": alt, "src": "enum" if n < len(enum) else "random"})
        if chk.tier != "quick" or n % 5 == 0:
            cases.append({"c": c, "m": "comptime", "alt": alt, "src": "enum" if n < len(enum) else "random"})
    cases.sort(key=lambda x: (x["m"], family(x["c"])))
    results = common.run_case_programs(chk, cases, program, "ar", per=200)
    recs = []
    idx = []
    notrun = {}
    for n, (case, (line, why)) in enumerate(zip(cases, results)):
        if line is None:
            notrun.setdefault("%s %s: %s" % (case["m"], family(case["c"]), why[:70]), []).append(n)
            continue
        try:
            o = list(bytes.fromhex(line.strip()))
        except ValueError:
            o = [256]
        recs.append({"c": case["c"], "o": o, "m": case["m"]})
        idx.append(n)
    bad = common.tlc_validate_sharded(chk, "TraceArith", "TraceArith.cfg", recs, "ar", shards=8)
    for (k, b) in bad:
        case = cases[idx[k]]
        c = case["c"]
        sig = {"kind": c["k"], "op": c.get("op", ""), "w": c.get("w", c.get("fw")), "s": c.get("s"),
               "w2": c.get("w2", c.get("fw2", 0)), "s2": c.get("s2"), "mode": case["m"]}
        chk.violation(sig, {"case": c, "mode": case["m"], "source": (comptime_body if case["m"] == "comptime" else body)(c, case["alt"]),
                            "observed_bytes": recs[k]["o"], "expected_bytes": b.get("want"),
                            "how": "operands built from bytes at run time; result bytes printed little-endian"})
    for n in (5, len(recs) // 3, len(recs) // 2, len(recs) - 7):
        if 0 <= n < len(recs):
            chk.sample({"case": recs[n]["c"], "mode": recs[n]["m"], "observed": recs[n]["o"]})
    chk.cov["evaluations"] = len(cases)
    chk.cov["distinct_nontrivial"] = len({json.dumps([x["c"], x["m"]], sort_keys=True) for x in cases})
    chk.cov["enumerated_boundary_cases"] = len(enum)
    chk.cov["random_cases"] = len(rnd)
    chk.cov["not_compiled_or_run"] = {k: len(v) for k, v in notrun.items()}
    chk.cov["exhaustive"] = False
    chk.cov["rule"] = ("every (type, operator, operand) triple of ArithMC.tla's boundary domain "
                       "(all widths 8..128 signed/unsigned, isize/usize, f32/f64: binary, unary, shifts, "
                       "comparisons, all int->int casts, int->float, float->int, float->float, float "
                       "arithmetic on dyadics) plus seeded random operands; run time and comptime; a case "
                       "is non-trivial unless its operands are equal to another case's")
    if notrun:
        log("note: cases not compiled/run: %s" % {k: len(v) for k, v in list(notrun.items())[:12]})


def replay(path):
    v = json.load(open(path))
    print(prelude())
    print("main :: () -> i32 { %s nl(); 0 }" % v["detail"]["source"])
    print("expected:", v["detail"]["expected_bytes"], "observed:", v["detail"]["observed_bytes"])
    return 1
