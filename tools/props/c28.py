"""C28 - imports resolve to the right files and each file is compiled once.

spec/Imports.tla enumerates configurations of directives over a fixed directory tree, prescribes
acceptance, resolution targets and the set of compiled files, and model-checks the CLI's work-list;
every configuration is materialised on disk and compiled with the repository's own CLI
(crates/capy/src/main.rs built as harness/target/debug/capy-cli) under strace.
"""
import concurrent.futures
import json
import os
import re
import shutil
import subprocess

import common

CLI = os.path.join(common.HARNESS_DIR, "target", "debug", "capy-cli")
IDS = {"w/main.capy": 1, "w/a.capy": 2, "w/d/b.capy": 3, "w/d/c.txt": 4, "o/o.capy": 5,
       "mods/m/src/mod.capy": 6, "mods/m/src/x.capy": 7}
MSG = [("ModMustBeAlphanumeric", re.compile(r"modules must be alphanumeric")),
       ("ModDoesNotExist", re.compile(r"module could not be found")),
       ("ModDoesNotContainModFile", re.compile(r"doesn't contain a `mod.capy`")),
       ("ImportMustEndInDotCapy", re.compile(r"capy files must end in `.capy`")),
       ("ImportDoesNotExist", re.compile(r"couldn't be found")),
       ("ImportOutsideCWD", re.compile(r"is outside the current working module"))]


def directive_text(d):
    if d["k"] == "mod":
        return '#mod("%s")' % d["m"]
    return '#import("%s")' % "/".join(d["p"])


def file_text(fid, directives, is_main):
    lines = []
    if is_main:
        lines.append("putchar :: (c: i32) -> i32 extern;")
    lines.append("id :: %d;" % fid)
    for n, d in enumerate(directives, start=1):
        lines.append("i%d :: %s;" % (n, directive_text(d)))
        if not is_main:
            lines.append("v%d :: i%d.id;" % (n, n))
    return lines


def materialise(root, c):
    cfg = c["cfg"]
    shutil.rmtree(root, ignore_errors=True)
    for d in ("w/d", "o", "mods/m/src", "mods/core"):
        os.makedirs(os.path.join(root, d))
    nsub = {"a": len(cfg["a"]), "b": len(cfg["b"]), "mod": 1}
    main = file_text(1, cfg["main"], True)
    body = []
    for n, site in enumerate(c["main_sites"], start=1):
        if site["reasons"]:
            continue
        body.append("    putchar(48 + i%d.id);" % n)
        tgt = "/".join(site["target"])
        sub = {"w/a.capy": c["a_sites"], "w/d/b.capy": c["b_sites"]}.get(tgt)
        if tgt == "mods/m/src/mod.capy":
            body.append("    putchar(48 + i%d.v1);" % n)
        elif sub is not None:
            for j, s2 in enumerate(sub, start=1):
                if not s2["reasons"]:
                    body.append("    putchar(48 + i%d.v%d);" % (n, j))
    main.append("main :: () {")
    main += body
    main.append("    putchar(10);")
    main.append("}")
    files = {"w/main.capy": main, "w/a.capy": file_text(2, cfg["a"], False),
             "w/d/b.capy": file_text(3, cfg["b"], False), "w/d/c.txt": ["id :: 4;"],
             "o/o.capy": ["id :: 5;"], "mods/m/src/x.capy": ["id :: 7;"]}
    if cfg["mod"]:
        files["mods/m/src/mod.capy"] = file_text(6, [{"k": "import", "p": ["x.capy"], "m": ""}], False)
    for p, lines in files.items():
        with open(os.path.join(root, p), "w") as f:
            f.write("\n".join(lines) + "\n")


def expected_stdout(c):
    out = []
    for site in c["main_sites"]:
        if site["reasons"]:
            continue
        out.append(chr(48 + site["id"]))
        tgt = "/".join(site["target"])
        if tgt == "mods/m/src/mod.capy":
            out.append(chr(48 + 7))
        sub = {"w/a.capy": c["a_sites"], "w/d/b.capy": c["b_sites"]}.get(tgt, [])
        for s2 in sub:
            if not s2["reasons"]:
                out.append(chr(48 + s2["id"]))
    return "".join(out) + "\n"


def run_one(args):
    root, c = args
    materialise(root, c)
    w = os.path.join(root, "w")
    trace = os.path.join(root, "strace.txt")
    cmd = ["strace", "-f", "-e", "trace=openat", "-o", trace, CLI, "build", "main.capy",
           "--mod-dir", "../mods", "-o", "prog", "--color", "never"]
    try:
        r = subprocess.run(cmd, cwd=w, capture_output=True, text=True, timeout=60, errors="replace")
        rc, out = r.returncode, r.stdout
    except subprocess.TimeoutExpired:
        rc, out = -999, "TIMEOUT"
    opens = {}
    try:
        for line in open(trace, errors="replace"):
            m = re.search(r'openat\([^,]+, "([^"]+)", ([A-Z_|]+)[^)]*\) = (\d+)', line)
            if m and (m.group(1).endswith(".capy") or m.group(1).endswith(".txt")):
                p = os.path.normpath(os.path.join(w, m.group(1)))
                opens[os.path.relpath(p, root)] = opens.get(os.path.relpath(p, root), 0) + 1
    except FileNotFoundError:
        pass
    exe = os.path.join(w, "out", "prog")
    prog_out, prog_rc = None, None
    if os.path.exists(exe):
        pr = subprocess.run([exe], capture_output=True, text=True, timeout=20, errors="replace")
        prog_out, prog_rc = pr.stdout, pr.returncode
    kinds = []
    for line in out.split("\n"):
        if "error" in line:
            for k, rx in MSG:
                if rx.search(line):
                    kinds.append(k)
    panicked = "panicked at" in (r.stderr if rc != -999 else "")
    shutil.rmtree(root, ignore_errors=True)
    return {"rc": rc, "kinds": kinds, "opens": opens, "prog_out": prog_out, "prog_rc": prog_rc,
            "panicked": panicked, "tail": out[-600:]}


def describe(c):
    cfg = c["cfg"]
    return {"main.capy": [directive_text(d) for d in cfg["main"]],
            "a.capy": [directive_text(d) for d in cfg["a"]],
            "d/b.capy": [directive_text(d) for d in cfg["b"]],
            "module m has mod.capy": cfg["mod"]}


def run(chk):
    cfg = "Imports_q.cfg" if chk.tier == "quick" else "Imports_t.cfg"
    res = common.run_tlc("Imports", cfg, chk.wd, workers=4, timeout=3000, out_name="enum.out")
    chk.require_tlc_ok("Imports.tla (work-list parses exactly the closure, once)", res)
    allcases = list(common.tlc_lines(res.out, "REPLAY"))
    os.remove(res.out)

    def relevant(c):
        """drop configurations that only differ from another one in files that are not compiled"""
        comp = ["/".join(p) for p in c["compiled"]]
        cfg = c["cfg"]
        if cfg["a"] and "w/a.capy" not in comp:
            return False
        if cfg["b"] and "w/d/b.capy" not in comp:
            return False
        uses_mod = any(d["k"] == "mod" and d["m"] == "m"
                       for f, ds in (("w/main.capy", cfg["main"]), ("w/a.capy", cfg["a"]),
                                     ("w/d/b.capy", cfg["b"])) if f in comp for d in ds)
        return cfg["mod"] or uses_mod
    cases = [c for c in allcases if relevant(c)]
    if chk.tier == "quick":
        # all single-directive configurations of main.capy plus a seed-selected third of the rest
        import zlib
        cases = [c for c in cases if len(c["cfg"]["main"]) <= 1
                 or (zlib.crc32(json.dumps(c["cfg"], sort_keys=True).encode()) + chk.seed) % 3 == 0]
    chk.cov["configurations_relevant"] = len(cases)
    chk.cov["configurations_enumerated"] = len(allcases)
    if not os.path.exists(CLI):
        raise common.ToolError("capy-cli was not built")
    roots = [(os.path.join(chk.wd, "t%d" % n), c) for n, c in enumerate(cases)]
    with concurrent.futures.ThreadPoolExecutor(max_workers=12) as ex:
        results = list(ex.map(run_one, roots))
    for c, r in zip(cases, results):
        why = None
        exp_sites = []
        for f, sites in (("w/main.capy", c["main_sites"]), ("w/a.capy", c["a_sites"]),
                         ("w/d/b.capy", c["b_sites"])):
            if [f.split("/")[0]] + f.split("/")[1:] in c["compiled"]:
                exp_sites += [s for s in sites if s["reasons"]]
        compiled = ["/".join(p) for p in c["compiled"]]
        if r["panicked"] or r["rc"] in (-999, 101):
            why = "compiler crashed or hung (rc=%s)" % r["rc"]
        elif c["ok"]:
            if r["rc"] != 0 or r["prog_out"] is None:
                why = "all imports are acceptable but the program was not built (rc=%s)" % r["rc"]
            elif r["prog_out"] != expected_stdout(c):
                why = "`file.id` denotes the wrong definition: printed %r, expected %r" % (
                    r["prog_out"], expected_stdout(c))
        else:
            if r["prog_out"] is not None or r["rc"] == 0:
                why = "an import that must be rejected was accepted (program built)"
            else:
                # one diagnostic per rejected site, of a kind that applies to it
                kinds = list(r["kinds"])
                for s in exp_sites:
                    hit = [k for k in kinds if k in s["reasons"]]
                    if not hit:
                        why = "no diagnostic for the rejected directive resolving to %s (%s); got %s" % (
                            "/".join(s["target"]), s["reasons"], r["kinds"])
                        break
                    kinds.remove(hit[0])
                if why is None and kinds:
                    why = "import diagnostics for directives that are acceptable: %s" % kinds
        if why is None:
            for f in compiled:
                n = r["opens"].get(f, 0)
                # when errors stop the compilation every compiled file was still read once
                if n != 1:
                    why = "%s was read %d times (compiled files are read exactly once)" % (f, n)
                    break
        if why:
            chk.violation({"kind": "imports", "cfg": json.dumps(describe(c), sort_keys=True)},
                          {"configuration": describe(c), "why": why, "compiled_by_spec": compiled,
                           "cli_exit": r["rc"], "cli_output_tail": r["tail"], "opens": r["opens"],
                           "how": "tree w/{main,a}.capy w/d/{b.capy,c.txt} o/o.capy mods/m/src/{mod,x}.capy; "
                                  "cd w && capy build main.capy --mod-dir ../mods"})
    for k in (5, len(cases) // 2, len(cases) - 3):
        chk.sample({"configuration": describe(cases[k]), "accepted": cases[k]["ok"],
                    "compiled": ["/".join(p) for p in cases[k]["compiled"]],
                    "cli_exit": results[k]["rc"], "program_output": results[k]["prog_out"]})
    chk.cov["traces_validated_against_impl"] = len(cases)
    chk.cov["evaluations"] = len(cases)
    chk.cov["distinct_nontrivial"] = len(cases)
    chk.cov["exhaustive"] = True
    chk.cov["rule"] = ("every configuration of Imports.tla in the cfg bound (directive lists for "
                       "main.capy / a.capy / d/b.capy from pools with `..`, `.`, self and cyclic "
                       "imports, missing, non-.capy and outside targets, #mod with / without "
                       "mod.capy and a non-alphanumeric name), each built with the real CLI")


def replay(path):
    print(json.dumps(json.load(open(path))["detail"], indent=1))
    return 1
