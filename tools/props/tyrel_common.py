"""Shared by C12 and C13: evaluate the real type relations on the universes of spec/Ty.tla and let
TLC (spec/TyRelLaws.tla) check the laws on the recorded table."""
import json
import os

import common


def sh(t):
    k = t["k"]
    if k == "int":
        return ("i" if t["s"] else "u") + {0: "{}", 255: "size"}.get(t["w"], str(t["w"]))
    if k == "float":
        return "f" + ("{}" if t["w"] == 0 else str(t["w"]))
    if k in ("arr", "anonarr"):
        return ("" if k == "arr" else "~") + "[%d]" % t["n"] + sh(t["sub"])
    if k == "slice":
        return "[]" + sh(t["sub"])
    if k == "ptr":
        return "^" + ("mut " if t["m"] else "") + sh(t["sub"])
    if k == "opt":
        return "?" + sh(t["sub"])
    if k == "eu":
        return sh(t["err"]) + "!" + sh(t["ok"])
    if k == "distinct":
        return "distinct#%d(%s)" % (t["uid"], sh(t["sub"]))
    if k == "variant":
        return "enum#%d.%s" % (t["euid"], t["name"])
    if k == "enum":
        return "enum#%d" % t["uid"]
    if k == "struct":
        return "struct#%d" % t["uid"]
    if k == "anonstruct":
        return ".{" + ",".join(m[0] + ":" + sh(m[1]) for m in t["ms"]) + "}"
    if k == "fnptr":
        return "(" + ",".join(sh(p) for p in t["ps"]) + ")->" + sh(t["ret"])
    if k == "rawptr":
        return "mut rawptr" if t["m"] else "rawptr"
    return k


def universes(chk):
    res = common.run_tlc("TyUniverse", "TyUniverse.cfg", chk.wd, workers=1, timeout=300,
                         out_name="univ.out")
    chk.require_tlc_ok("TyUniverse (Ty.tla)", res)
    out = {}
    for tag in ("UNIV1", "UNIV2", "UNIV3"):
        for u in common.tlc_lines(res.out, tag):
            p = os.path.join(chk.wd, tag.lower() + ".json")
            with open(p, "w") as f:
                json.dump(u, f)
            out[tag[-1]] = (p, len(u))
    return out


def check_laws(chk, laws, which):
    """which: list of universe ids ("1", "2")"""
    univ = universes(chk)
    total = 0
    for w in which:
        path, n = univ[w]
        table = os.path.join(chk.wd, "table%s.ndjson" % w)
        common.harness(["tyrel", "--universe", path, "--out", table])
        res = common.run_tlc("TyRelLaws", "TyRelLaws.cfg", chk.wd, workers=1, timeout=3000,
                             env={"TRACE": table, "UNIVERSE": w}, out_name="laws%s.out" % w)
        chk.require_tlc_ok("TyRelLaws on universe %s (%d types)" % (w, n), res)
        bad = list(common.tlc_lines(res.out, "BAD"))
        pan = list(common.tlc_lines(res.out, "PANIC"))
        chk.cov["traces_validated_against_impl"] += res.distinct - 1
        total += n * n
        recs = None
        if bad or pan:
            recs = list(common.read_ndjson(table))
        for b in bad:
            r = recs[b["idx"] - 1]
            for law in (b["laws"].values() if isinstance(b["laws"], dict) else b["laws"]):
                if law not in laws:
                    continue
                sig = {"kind": "law", "law": law, "a": sh(r["a"]), "b": sh(r["b"])}
                if law == "MaxAcceptsBoth":
                    sig["max"] = r["max"]
                chk.violation(sig, {"law": law, "a": sh(r["a"]), "b": sh(r["b"]),
                                    "fit": r["fit"], "cast": r["cast"], "weak": r["weak"],
                                    "max(a,b)": r["max"], "max(b,a)": r["maxrev"],
                                    "a fits max": r["fit_a_max"], "b fits max": r["fit_b_max"],
                                    "terms": [r["a"], r["b"]],
                                    "how": "hir::common::Ty::{can_fit_into,can_cast_to,"
                                           "is_weak_replaceable_by,max} on the two types"})
        if pan:
            chk.cov["notes"].append("%d pairs made a relation panic (reported under C06, not here), "
                                    "e.g. %s vs %s" % (len(pan), sh(recs[pan[0]["idx"] - 1]["a"]),
                                                       sh(recs[pan[0]["idx"] - 1]["b"])))
        for k, r in enumerate(common.read_ndjson(table)):
            if k in (77, 5000, 12345):
                chk.sample({"a": sh(r["a"]), "b": sh(r["b"]), "fit": r["fit"], "cast": r["cast"],
                            "weak": r["weak"], "max": r["max"]})
        os.remove(table)
    chk.cov["evaluations"] = total
    chk.cov["distinct_nontrivial"] = total
    chk.cov["exhaustive"] = True
    chk.cov["rule"] = ("every ordered pair of the universe(s) of Ty.tla (all primitives, weak types, "
                       "nil, void, nominal shapes with a small uid pool, one constructor level; "
                       "universe 2 = constructors over selected depth-1 types, universe 3 = two "
                       "constructor levels around weak numbers); completeness of "
                       "the table asserted by TLC")
