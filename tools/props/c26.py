"""C26 - inference scheduling offers exactly the ready work and detects true cycles.

(P) spec/TopoSched.tla, (M) spec/TopoImpl.tla (refinement checked by TLC: PROPERTY PSpec),
(C) every transition of the bounded model is replayed into the real topo::TopoSort.
"""
import json
import os

import common
from common import log


def replay_hist(chk, tlc_out, name):
    out = os.path.join(chk.wd, name + ".replay.json")
    common.harness(["topo-replay", "--in", tlc_out, "--out", out])
    with open(out) as f:
        r = json.load(f)
    chk.cov["traces_validated_against_impl"] += r["histories"]
    chk.cov["evaluations"] += r["ops"]
    for s in r["samples"][:3]:
        chk.sample({"history": json.loads(s)})
    for v in r["violations"]:
        chk.violation({"kind": "topo-replay", "what": v["what"].split(":")[-1].strip()[:60]},
                      {"history": json.loads(v["hist"]), "what": v["what"],
                       "how": "replay the calls of `history` into topo::TopoSort<u8>"})
    for d in r["drift"]:
        chk.note_drift("TopoImpl order: " + d["what"])
    return r


def run(chk):
    # 1. exhaustive model check of (M) against (P), 3 items / 6 rounds, every transition replayed
    res = common.run_tlc("TopoImpl", "TopoImpl_q.cfg", chk.wd, workers=4, timeout=900,
                         out_name="q.out")
    chk.require_tlc_ok("TopoImpl 3 items/6 rounds (refines TopoSched)", res)
    r = replay_hist(chk, res.out, "q")
    if r["histories"] != res.generated - 7 and r["histories"] != res.generated:
        log("note: %d replay lines for %d generated states" % (r["histories"], res.generated))
    os.remove(res.out)
    chk.cov["exhaustive"] = True
    chk.cov["distinct_nontrivial"] = res.distinct
    chk.cov["rule"] = ("every transition of TopoImpl (Items=1..3, <=6 rounds) under the checker's "
                       "usage protocol, each with a concrete call history; distinct = distinct "
                       "model states (VIEW hides the history)")
    if chk.tier == "thorough":
        # 2. the property's own bound, model level
        res = common.run_tlc("TopoImpl", "TopoImpl_full.cfg", chk.wd, workers=12, timeout=3000,
                             out_name="full.out")
        chk.require_tlc_ok("TopoImpl 4 items/8 rounds (refines TopoSched)", res)
        # 3. random behaviours at the full bound, replayed
        res = common.run_tlc("TopoImpl", "TopoImpl_sim.cfg", chk.wd, workers=1, timeout=900,
                             out_name="sim.out",
                             extra=["-simulate", "num=4000", "-depth", "45",
                                    "-seed", str(chk.seed + 1)])
        # simulation mode does not print the "No error" banner the same way
        if res.errors:
            chk.require_tlc_ok("TopoImpl simulate", res)
        chk.add_tlc("TopoImpl simulate 4 items/8 rounds", res)
        replay_hist(chk, res.out, "sim")
        os.remove(res.out)
    sched_traces(chk)
    chk.assumptions += [
        "TLC explores the model exhaustively only inside the stated bound",
        "the harness drives TopoSort<u8> with the calls InferenceCtx::finish makes "
        "(extend, peek_all/peek_all_cyclic, remove, insert_deps)"]


def sched_traces(chk):
    """(ii) histories of the real inference scheduler, recorded by hir_ty::verif_trace while the front
    end checks corpus programs and generated generic / many-definition programs, validated against
    TopoSched.tla by TraceTopo.tla"""
    import random
    import capygen
    import pipeline_common as P
    from props import c16, c20
    rng = random.Random(chk.seed + 26)
    base = P.base_programs()
    rng.shuffle(base)
    nb = 120 if chk.tier == "quick" else 1000
    named = [(name, files, "repo") for name, files in base[:nb]]
    for k in range(20 if chk.tier == "quick" else 200):
        p = c16.GGen(chk.seed * 7919 + 26000 + k).program()
        named.append(("generic%d" % k, {"main.capy": __import__("props.c08", fromlist=["x"]).prelude() + capygen.Render().program(p)}, ""))
    for k in range(10 if chk.tier == "quick" else 100):
        items = c20.abstract_program(chk.seed * 31 + 26500 + k, k % 4 == 3)
        order = list(range(len(items)))
        rng.shuffle(order)
        fo = {it["name"]: rng.choice(["main.capy", "lib.capy"]) if it["name"] != "main" else "main.capy" for it in items}
        named.append(("defs%d" % k, c20.arrange(items, order, fo), ""))
    jobs = []
    for n, (name, files, md) in enumerate(named):
        j = P.job("s%d" % n, files, link=False, mod_dir=md)
        j["sched"] = True
        j["stop_after"] = "infer"
        jobs.append(j)
    results = common.run_batch(jobs, chk.wd, "sched", par=12)
    recs, idx = [], []
    for n, r in enumerate(results):
        evs = r.get("sched") or []
        if not evs or not evs[0].startswith("seed"):
            continue
        ids = {}

        def num(x):
            if x not in ids:
                ids[x] = len(ids) + 1
            return ids[x]
        out = []
        for line in evs:
            f = line.split("\t")
            if f[0] == "seed":
                out.append({"t": "seed", "s": [num(x) for x in f[1:] if x]})
            elif f[0] == "round":
                out.append({"t": "round", "cyc": f[1] == "true", "s": [num(x) for x in f[2:] if x]})
            elif f[0] == "done":
                out.append({"t": "done", "i": num(f[1])})
            elif f[0] == "deps":
                out.append({"t": "deps", "i": num(f[1]), "s": [num(x) for x in f[2:] if x]})
        if len(ids) > 400:
            continue        # (core-sized programs: the history is long; keep the validation fast)
        recs.append({"n": max(1, len(ids)), "ev": out, "complete": "infer" in r["stages"], "names": None})
        idx.append((n, {v: k for k, v in ids.items()}))
    trace = os.path.join(chk.wd, "sched.ndjson")
    common.write_ndjson(trace, [{k: v for k, v in r.items() if k != "names"} for r in recs])
    res = common.run_tlc("TraceTopo", "TraceTopo.cfg", chk.wd, workers=1, timeout=3000, env={"TRACE": trace}, dfs=True,
                         out_name="sched.out")
    chk.require_tlc_ok("TraceTopo.tla on recorded scheduler histories", res)
    seen = set()
    for b in common.tlc_lines(res.out, "BAD"):
        if b["idx"] in seen:
            continue
        seen.add(b["idx"])
        n, names = idx[b["idx"] - 1]
        ev = recs[b["idx"] - 1]["ev"]
        at = b["at"] - 1
        show = lambda e: {k: ([names[x] for x in v] if k == "s" else names[v] if k == "i" else v) for k, v in e.items()}
        chk.violation({"kind": "scheduler-history", "why": b["why"][:40], "event": ev[at]["t"] if 0 <= at < len(ev) else "end"},
                      {"program": named[n][0], "why": b["why"], "event_number": b["at"],
                       "event": show(ev[at]) if 0 <= at < len(ev) else None,
                       "ready_by_the_contract": [names[x] for x in b["ready"]], "pending": [names[x] for x in b["pending"]],
                       "previous_events": [show(e) for e in ev[max(0, at - 6):at]], "files": named[n][1],
                       "how": "hir_ty::verif_trace events of InferenceCtx::finish (cfg capy_verif)"})
    chk.cov["scheduler_histories"] = len(recs)
    chk.cov["scheduler_events"] = sum(len(r["ev"]) for r in recs)
    chk.cov["cyclic_rounds"] = sum(1 for r in recs for e in r["ev"] if e["t"] == "round" and e["cyc"])
    chk.cov["traces_validated_against_impl"] += len(recs)
    if recs:
        chk.sample({"program": named[idx[0][0]][0], "events": recs[0]["ev"][:6]})


def replay(path):
    with open(path) as f:
        v = json.load(f)
    if "history" not in v["detail"]:
        print(json.dumps(v["detail"], indent=1)[:4000])
        return 1
    tmp = path + ".in"
    with open(tmp, "w") as f:
        f.write("REPLAY " + json.dumps(v["detail"]["history"]) + "\n")
    out = path + ".out"
    common.harness(["topo-replay", "--in", tmp, "--out", out])
    with open(out) as f:
        r = json.load(f)
    print(json.dumps(r["violations"], indent=1))
    return 1 if r["violations"] else 0
