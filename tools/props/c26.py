"""C26 - inference scheduling offers exactly the ready work and detects true cycles.

(P) spec/TopoSched.tla, (M) spec/TopoImpl.tla (refinement checked by TLC: PROPERTY PSpec),
(C) every transition of the bounded model is replayed into the real topo::TopoSort.
"""
import json
import os

import common
from common import log


def replay_hist(chk, tlc_out, name):
    out = os.path.join(chk.wd, name + ".replay.json")
    common.harness(["topo-replay", "--in", tlc_out, "--out", out])
    with open(out) as f:
        r = json.load(f)
    chk.cov["traces_validated_against_impl"] += r["histories"]
    chk.cov["evaluations"] += r["ops"]
    for s in r["samples"][:3]:
        chk.sample({"history": json.loads(s)})
    for v in r["violations"]:
        chk.violation({"kind": "topo-replay", "what": v["what"].split(":")[-1].strip()[:60]},
                      {"history": json.loads(v["hist"]), "what": v["what"],
                       "how": "replay the calls of `history` into topo::TopoSort<u8>"})
    for d in r["drift"]:
        chk.note_drift("TopoImpl order: " + d["what"])
    return r


def run(chk):
    # 1. exhaustive model check of (M) against (P), 3 items / 6 rounds, every transition replayed
    res = common.run_tlc("TopoImpl", "TopoImpl_q.cfg", chk.wd, workers=4, timeout=900,
                         out_name="q.out")
    chk.require_tlc_ok("TopoImpl 3 items/6 rounds (refines TopoSched)", res)
    r = replay_hist(chk, res.out, "q")
    if r["histories"] != res.generated - 7 and r["histories"] != res.generated:
        log("note: %d replay lines for %d generated states" % (r["histories"], res.generated))
    os.remove(res.out)
    chk.cov["exhaustive"] = True
    chk.cov["distinct_nontrivial"] = res.distinct
    chk.cov["rule"] = ("every transition of TopoImpl (Items=1..3, <=6 rounds) under the checker's "
                       "usage protocol, each with a concrete call history; distinct = distinct "
                       "model states (VIEW hides the history)")
    if chk.tier == "thorough":
        # 2. the property's own bound, model level
        res = common.run_tlc("TopoImpl", "TopoImpl_full.cfg", chk.wd, workers=12, timeout=3000,
                             out_name="full.out")
        chk.require_tlc_ok("TopoImpl 4 items/8 rounds (refines TopoSched)", res)
        # 3. random behaviours at the full bound, replayed
        res = common.run_tlc("TopoImpl", "TopoImpl_sim.cfg", chk.wd, workers=1, timeout=900,
                             out_name="sim.out",
                             extra=["-simulate", "num=4000", "-depth", "45",
                                    "-seed", str(chk.seed + 1)])
        # simulation mode does not print the "No error" banner the same way
        if res.errors:
            chk.require_tlc_ok("TopoImpl simulate", res)
        chk.add_tlc("TopoImpl simulate 4 items/8 rounds", res)
        replay_hist(chk, res.out, "sim")
        os.remove(res.out)
    chk.assumptions += [
        "TLC explores the model exhaustively only inside the stated bound",
        "the harness drives TopoSort<u8> with the calls InferenceCtx::finish makes "
        "(extend, peek_all/peek_all_cyclic, remove, insert_deps)"]


def replay(path):
    with open(path) as f:
        v = json.load(f)
    tmp = path + ".in"
    with open(tmp, "w") as f:
        f.write("REPLAY " + json.dumps(v["detail"]["history"]) + "\n")
    out = path + ".out"
    common.harness(["topo-replay", "--in", tmp, "--out", out])
    with open(out) as f:
        r = json.load(f)
    print(json.dumps(r["violations"], indent=1))
    return 1 if r["violations"] else 0
