"""C02 - writing one value never changes any other value.

spec/Memory.tla: one object S = { x: X, g: [8]u8 } in a byte memory; one store into x (or one
element of x) in each of the ways the language offers; the frame condition is an action property
checked by TLC, and every behaviour's final byte image (-1 = padding, unconstrained) is replayed:
the real program builds S, performs the store and dumps S's bytes.
"""
import json
import os

import common
from common import log
from props import c08

VN = "ABCDEF"
GUARD = [201, 202, 203, 204, 205, 206, 207, 208]


def key(t):
    return json.dumps(t, sort_keys=True)


class Namer:
    def __init__(self):
        self.names = {}
        self.decls = []

    def texpr(self, t):
        k = t["k"]
        if k == "int":
            return ("i" if t["s"] else "u") + str(t["w"])
        if k == "float":
            return "f%d" % t["w"]
        if k == "bool":
            return "bool"
        if k == "arr":
            return "[%d]%s" % (t["n"], self.texpr(t["sub"]))
        if k == "opt":
            return "?" + self.texpr(t["sub"])
        if k == "eu":
            return "%s!%s" % (self.texpr(t["err"]), self.texpr(t["ok"]))
        if k in ("struct", "anonstruct", "enum"):
            kk = key(t)
            if kk not in self.names:
                # declare components first
                if k == "enum":
                    parts = []
                    for i, v in enumerate(t["vs"]):
                        parts.append(VN[i] if v["sub"]["k"] == "void" else "%s: %s" % (VN[i], self.texpr(v["sub"])))
                    body = "enum { %s }" % ", ".join(parts)
                else:
                    body = "struct { %s }" % ", ".join("f%d: %s" % (i, self.texpr(m[1])) for i, m in enumerate(t["ms"]))
                name = "N%d" % len(self.names)
                self.names[kk] = name
                self.decls.append("%s :: %s;" % (name, body))
                self.decls.append("%sx :: %s;" % (name, body))     # structural twin (for casts)
            return self.names[kk]
        raise ValueError(k)

    def lit(self, t, tr, twin=False):
        k = t["k"]
        if k == "int":
            # an explicit cast keeps the literal's type out of the weak-literal inference
            return "%s.(%d)" % (self.texpr(t), int.from_bytes(bytes(tr["bs"]), "little"))
        if k == "bool":
            return "true" if tr["b"] else "false"
        if k == "float":
            return "-2.25" if tr["neg"] else "1.5"
        if k in ("struct", "anonstruct"):
            name = self.texpr(t) + ("x" if twin else "")
            return "%s.{ %s }" % (name, ", ".join("f%d = %s" % (i, self.lit(m[1], f))
                                                  for i, (m, f) in enumerate(zip(t["ms"], tr["fs"]))))
        if k == "arr":
            return "%s.[%s]" % (self.texpr(t["sub"]), ", ".join(self.lit(t["sub"], e) for e in tr["es"]))
        if k == "enum":
            v = tr["v"]
            sub = t["vs"][v - 1]["sub"]
            base = "%s.%s" % (self.texpr(t), VN[v - 1])
            return base if sub["k"] == "void" else "%s.(%s)" % (base, self.lit(sub, tr["p"]))
        if k == "opt":
            return "nil" if tr["k"] == "nil" else self.lit(t["sub"], tr["p"])
        if k == "eu":
            return self.lit(t["ok"], tr["p"]) if tr["k"] == "ok" else self.lit(t["err"], tr["p"])
        raise ValueError(k)


WIDE = {"u8": "u64", "u16": "u64", "i16": "i64", "i32": "i64", "u32": "u64"}


def widen(N, t, tr):
    """(type expression, literal) of a value that converts member-wise to the value `tr` of type t:
    same member names in reverse order, wider integer types"""
    k = t["k"]
    if k == "int":
        name = N.texpr(t)
        return WIDE.get(name, name), str(int.from_bytes(bytes(tr["bs"]), "little"))
    if k == "opt":
        wt, _ = widen(N, t["sub"], {"bs": [0]} if t["sub"]["k"] == "int" else None)
        if tr["k"] == "nil":
            return "?" + wt, "nil"
        return "?" + wt, widen(N, t["sub"], tr["p"])[1]
    if k == "arr":
        parts = [widen(N, t["sub"], e) for e in tr["es"]]
        et = parts[0][0]
        return "[%d]%s" % (t["n"], et), "%s.[%s]" % (et, ", ".join("%s.(%s)" % (et, p[1]) if et.startswith("?") and p[1] != "nil" else p[1] for p in parts))
    if k in ("struct", "anonstruct"):
        parts = [(i, widen(N, m[1], f)) for i, (m, f) in enumerate(zip(t["ms"], tr["fs"]))]
        parts.reverse()
        ty = "struct { %s }" % ", ".join("f%d: %s" % (i, p[0]) for i, p in parts)
        name = "Wd%d" % len(N.decls)
        N.decls.append("%s :: %s;" % (name, ty))
        return name, "%s.{ %s }" % (name, ", ".join("f%d = %s" % (i, p[1]) for i, p in parts))
    raise ValueError(k)


def guard_lit():
    return "u8.[%s]" % ", ".join(str(g) for g in GUARD)


def render(N, n, c):
    """(top-level text) for case n"""
    t, kind = c["t"], c["kind"]
    T = N.texpr(t)
    va, vb = N.lit(t, c["ta"]), N.lit(t, c["tb"])
    pre = []
    L = ["k%d :: () {" % n]
    if kind == "local":
        L += ["    g1 := %s;" % guard_lit(), "    x : %s = %s;" % (T, va), "    g2 := %s;" % guard_lit(),
              "    v : %s = %s;" % (T, vb), "    x = v;",
              "    emit(^x, %d); emit(^g2, 8); putchar(32); emit(^g1, 8); nl();" % c["size"], "}"]
        return "\n".join(L)
    if kind == "litrev":
        # S is built by a literal whose members are written in reverse order, x copied from a variable
        L += ["    S :: struct { x: %s, g: [8]u8 };" % T, "    v : %s = %s;" % (T, vb),
              "    s := S.{ g = %s, x = v };" % guard_lit(), "    emit(^s, %d); nl();" % (c["size"] + 8), "}"]
        return "\n".join(L)
    elem = kind in ("elem0", "elem1")
    X = "[2]%s" % T if elem else T
    xinit = "%s.[%s, %s]" % (T, va, va) if elem else va
    L.append("    S :: struct { x: %s, g: [8]u8 };" % X)
    L.append("    s := S.{ x = %s, g = %s };" % (xinit, guard_lit()))
    if kind == "copy":
        L += ["    v : %s = %s;" % (T, vb), "    s.x = v;"]
    elif kind == "lit":
        L += ["    s.x = %s;" % vb]
    elif kind == "conv":
        tb = c["tb"]
        if t["k"] == "enum":
            vt = "%s.%s" % (T, VN[tb["v"] - 1])
            L += ["    p : %s = %s;" % (vt, vb), "    s.x = p;"]
        elif t["k"] == "opt":
            if tb["k"] == "nil":
                L += ["    s.x = nil;"]
            else:
                L += ["    p : %s = %s;" % (N.texpr(t["sub"]), vb), "    s.x = p;"]
        else:
            pt = t["ok"] if tb["k"] == "ok" else t["err"]
            L += ["    p : %s = %s;" % (N.texpr(pt), vb), "    s.x = p;"]
    elif kind == "arg":
        pre.append("id%d :: (a: %s) -> %s { a }" % (n, T, T))
        L += ["    v : %s = %s;" % (T, vb), "    s.x = id%d(v);" % n]
    elif kind == "ptr":
        L += ["    p := ^mut s.x;", "    v : %s = %s;" % (T, vb), "    p^ = v;"]
    elif kind == "cadd":
        L += ["    v : %s = %s;" % (T, vb), "    s.x += v;"]
    elif kind == "caddw":
        wide = int.from_bytes(bytes(((c["seed_b"] * 7 + j * 13) % 120) + 1 for j in range(1, 9)), "little")
        L += ["    v : u64 = %d;" % wide, "    s.x += v;"]
    elif kind == "cast":
        L += ["    w := %s;" % N.lit(t, c["tb"], twin=True), "    s.x = %s.(w);" % T]
    elif kind == "castr":
        # the same members (names and types) declared in the reverse order
        ms = list(enumerate(zip(t["ms"], c["tb"]["fs"])))
        ms.reverse()
        name = "Rv%d" % len(N.decls)
        N.decls.append("%s :: struct { %s };" % (name, ", ".join("f%d: %s" % (i, N.texpr(m[1])) for i, (m, f) in ms)))
        L += ["    w := %s.{ %s };" % (name, ", ".join("f%d = %s" % (i, N.lit(m[1], f)) for i, (m, f) in ms)),
              "    s.x = %s.(w);" % T]
    elif kind == "castw":
        wt, wl = widen(N, t, c["tb"])
        L += ["    w : %s = %s;" % (wt, wl), "    s.x = %s.(w);" % T]
    elif elem:
        L += ["    v : %s = %s;" % (T, vb), "    s.x[%d] = v;" % (0 if kind == "elem0" else 1)]
    L += ["    emit(^s, %d); nl();" % (c["size"] + 8), "}"]
    return "\n".join(pre + L)


def sh(t):
    k = t["k"]
    if k == "int":
        return ("i" if t["s"] else "u") + str(t["w"])
    if k in ("float",):
        return "f%d" % t["w"]
    if k in ("struct", "anonstruct"):
        if len(t["ms"]) > 4:
            return "struct{%d x u8}" % len(t["ms"])
        return "struct{%s}" % ",".join(sh(m[1]) for m in t["ms"])
    if k == "arr":
        return "[%d]%s" % (t["n"], sh(t["sub"]))
    if k == "enum":
        return "enum{%s}" % ",".join(sh(v["sub"]) for v in t["vs"])
    if k == "opt":
        return "?" + sh(t["sub"])
    if k == "eu":
        return sh(t["err"]) + "!" + sh(t["ok"])
    return k


def run(chk):
    cfg = "Memory_q.cfg" if chk.tier == "quick" else "Memory_t.cfg"
    res = common.run_tlc("Memory", cfg, chk.wd, workers=8, timeout=3000, out_name="enum.out",
                         env={"PTR": "64", "LEVEL": "1", "TRACE": "none"})
    chk.require_tlc_ok("Memory.tla (frame condition as action property; images per behaviour)", res)
    seen, cases = set(), []
    for x in common.tlc_lines(res.out, "CASE"):
        kk = json.dumps([x["t"], x["kind"], x["tb"], x["seed_b"]], sort_keys=True)
        if kk not in seen:
            seen.add(kk)
            cases.append(x)
    os.remove(res.out)
    cases.sort(key=lambda x: (x["kind"], json.dumps(x["t"], sort_keys=True), json.dumps(x["tb"], sort_keys=True)))
    N = Namer()
    fns = [render(N, n, c) for n, c in enumerate(cases)]
    pre = c08.prelude() + "\n".join(N.decls) + "\n"
    idx = list(range(len(cases)))

    def program(ns):
        return pre + "\n".join(fns[n] for n in ns) + "\nmain :: () -> i32 {\n" + \
            "\n".join("    k%d();" % n for n in ns) + "\n    0\n}\n"
    results = common.run_case_programs(chk, idx, program, "mem", per=60)
    nrun = 0
    notrun = {}
    for n, (line, why) in zip(idx, results):
        c = cases[n]
        desc = "%s into %s" % (c["kind"], sh(c["t"]))
        if line is None and c["kind"] == "caddw" and why.startswith("rejected"):
            continue            # a checker that rejects `u8 += u64` is right to; nothing was stored
        if line is None:
            notrun.setdefault(why[:70], []).append(desc)
            sig = {"kind": "not-built", "store": c["kind"], "ty": sh(c["t"])[:40], "why": why[:50]}
            chk.violation(sig, {"store": desc, "source": fns[n], "decls": N.decls, "why": why,
                                "note": "an accepted program that stores a value next to guards was not built / did not run to completion"})
            continue
        nrun += 1
        try:
            parts = line.strip().split(" ")
            obs = list(bytes.fromhex(parts[0]))
            g1 = list(bytes.fromhex(parts[1])) if len(parts) > 1 else None
        except ValueError:
            obs, g1 = [], None
        want = c["after"]
        diffs = [k for k in range(len(want)) if want[k] != -1 and (k >= len(obs) or obs[k] != want[k])]
        if g1 is not None and g1 != GUARD:
            diffs.append(-1)
        if diffs:
            size = c["size"]
            where = "guard" if any(k >= size or k < 0 for k in diffs) else \
                ("other-element" if c["kind"] in ("elem0", "elem1") and any(
                    (k >= c["stride"]) != (c["kind"] == "elem1") for k in diffs) else "value")
            chk.violation({"kind": where, "store": c["kind"], "ty": sh(c["t"])[:40]},
                          {"store": desc, "source": fns[n], "decls": N.decls, "prescribed_image": want,
                           "observed_image": obs, "differs_at": diffs[:16], "guard_before_x": g1,
                           "how": "bytes of S = { x, g: [8]u8 } after the store; -1 = padding (unconstrained); "
                                  "guard g = 201..208"})
    for n in (2, len(cases) // 2, len(cases) - 3):
        chk.sample({"store": "%s into %s" % (cases[n]["kind"], sh(cases[n]["t"])), "image": cases[n]["after"],
                    "observed": results[n][0]})
    chk.cov["traces_validated_against_impl"] = nrun
    chk.cov["evaluations"] = len(cases)
    chk.cov["distinct_nontrivial"] = len(set(fns))
    chk.cov["not_run"] = {k: len(v) for k, v in notrun.items()}
    chk.cov["exhaustive"] = True
    chk.cov["rule"] = ("every behaviour of Memory.tla: 28 value types (scalars, structs with odd sizes and inner "
                       "padding, arrays, enums, optionals, error unions) and all-bytes structs of the sizes in "
                       "ByteSizes x 14 store kinds (copy, literal/conversion, payload or variant variable, "
                       "argument+return by value, through ^mut, struct cast from a twin / from wider members in "
                       "another order / from the same members in reverse order, array element 0 / 1, local between "
                       "guard locals, literal in reverse member order, compound assignment) x 4 stored values")


def replay(path):
    v = json.load(open(path))
    print("\n".join(v["detail"].get("decls", [])))
    print(v["detail"]["source"])
    print(json.dumps({k: v["detail"].get(k) for k in ("prescribed_image", "observed_image", "differs_at", "why")}))
    return 1
