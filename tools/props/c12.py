"""C12 - implicit conversion is consistent, order-independent and weaker than casting."""
import json

import props.tyrel_common as T

LAWS = ["Reflexive", "FitImpliesCast", "WeakImpliesFit", "MaxAcceptsBoth", "MaxSymmetric"]


def run(chk):
    T.check_laws(chk, LAWS, ["1", "3"] if chk.tier == "quick" else ["1", "2", "3"])


def replay(path):
    print(json.dumps(json.load(open(path))["detail"], indent=1))
    return 1
