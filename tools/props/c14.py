"""C14 - immutable data can never be modified.  spec/Mutability.tla enumerates place chains."""
import json
import os

import common

PRELUDE = """putchar :: (c: i32) -> i32 extern;
T :: struct { v: i32 };
S :: struct { a: i32, arr: [2]i32, inner: T, pm: ^mut T, pi: ^T, o: ?T, pma: ^mut [2]i32, pia: ^[2]i32 };
G :: struct { a: i32, arr: [2]i32, inner: T };
fi :: (p: ^mut S) -> ^S { p }
fm :: (p: ^mut S) -> ^mut S { p }
gg :: comptime { G.{ a = 1, arr = i32.[1, 2], inner = T.{ v = 3 } } };
"""

BODY_PRE = """    t1 := T.{ v = 1 };
    t2 := T.{ v = 2 };
    a1 := i32.[1, 2];
    a2 := i32.[3, 4];
    s := S.{ a = 1, arr = i32.[1, 2], inner = T.{ v = 3 }, pm = ^mut t1, pi = ^t2, o = T.{ v = 4 }, pma = ^mut a1, pia = ^a2 };
    lm := s;
    li :: s;
    vm := ^mut s;
    vi := ^s;
    cm :: ^mut s;
    am : ^S = ^mut s;
    ii := ^vi;
    im := ^vm;
    mi := ^mut vi;
    mm := ^mut vm;
"""


def place(c):
    e = c["root"]
    if e in ("fi", "fm"):
        e += "(^mut s)"
    for st in c["steps"]:
        k = st["k"]
        if k == "field":
            e += "." + st["f"]
        elif k == "index":
            e += "[0]"
        elif k == "deref":
            e += "^"
        elif k == "paren":
            e = "(" + e + ")"
        elif k == "unwrap":
            e = "#unwrap(" + e + ", T)"
    return e


def cases_of(c):
    out = []
    p = place(c)
    if c["root"] in ("fi", "fm") and not c["steps"]:
        return out          # a call result is not a place by itself
    if c["ty"] == "i32":
        out.append(("assign", "%s = 7;" % p))
        out.append(("compound", "%s += 1;" % p))
    # `^mut x^` parses as `(^mut x)^` (prefix before postfix deref): always parenthesise the place
    out.append(("refmut", "r := ^mut (%s);" % p))
    return out


def run(chk):
    cfg = "Mutability_q.cfg" if chk.tier == "quick" else "Mutability_t.cfg"
    res = common.run_tlc("Mutability", cfg, chk.wd, workers=4, timeout=1800, out_name="enum.out")
    chk.require_tlc_ok("Mutability.tla (chains; incremental = definitional mutability)", res)
    chains = list(common.tlc_lines(res.out, "REPLAY"))
    os.remove(res.out)
    tests = []  # (chain, op, stmt)
    for c in chains:
        for op, stmt in cases_of(c):
            tests.append((c, op, stmt))
    # many functions per file; diagnostics are matched by line
    per = 150
    jobs, layout = [], []
    for b in range(0, len(tests), per):
        lines = PRELUDE.rstrip("\n").split("\n")
        where = {}
        for n, (c, op, stmt) in enumerate(tests[b:b + per]):
            lines.append("f%d :: (ps: S, qm: ^mut S, qi: ^S, qii: ^^S, qmi: ^mut ^S, qmm: ^mut ^mut S) {" % n)
            lines += BODY_PRE.rstrip("\n").split("\n")
            lines.append("    " + stmt)
            where[len(lines)] = b + n
            lines.append("}")
        lines.append("main :: () {}")
        jobs.append({"id": "b%d" % b, "files": {"main.capy": "\n".join(lines) + "\n"},
                     "stop_after": "infer", "timeout_ms": 60000})
        layout.append(where)
    results = common.run_batch(jobs, chk.wd, "mut")
    nacc = nrej = 0
    mixed = {True: 0, False: 0}
    for job, where, r in zip(jobs, layout, results):
        if r.get("panic") or r.get("crash"):
            chk.violation({"kind": "front-end-crash", "job": job["id"]},
                          {"panic": r.get("panic"), "crash": r.get("crash"),
                           "note": "the checker crashed on a batch of place expressions"})
            continue
        errs = {}
        other = []
        for d in r["diags"]:
            if d["sev"] != "error":
                continue
            try:
                line = int(d["header"].split(":")[0])
            except ValueError:
                continue
            if line in where:
                errs.setdefault(line, []).append(d["kind"])
            else:
                other.append((line, d["kind"]))
        if other:
            raise common.ToolError("unexpected diagnostics outside the tested lines: %s" % other[:5])
        for line, idx in where.items():
            c, op, stmt = tests[idx]
            rejected = line in errs
            if rejected:
                nrej += 1
            else:
                nacc += 1
            if c.get("mixed"):
                mixed[rejected] += 1
            if rejected == c["mutable"]:
                chk.violation({"kind": "mutability", "stmt": stmt, "root": c["root"],
                               "mixed": bool(c.get("mixed")),
                               "compiler": "rejected" if rejected else "accepted"},
                              {"statement": stmt, "op": op, "place_type": c["ty"],
                               "mutable_by_the_rule": c["mutable"],
                               "compiler": "rejected %s" % errs[line] if rejected else "accepted",
                               "context": BODY_PRE, "decls": PRELUDE,
                               "how": "front end (hir_ty) on a function (ps: S, qm: ^mut S, qi: ^S, qii: ^^S, qmi: ^mut ^S, "
                                      "qmm: ^mut ^mut S) "
                                      "containing the statement"})
    for k in (10, 400, 1500):
        if k < len(tests):
            chk.sample({"statement": tests[k][2], "mutable": tests[k][0]["mutable"]})
    chk.cov["traces_validated_against_impl"] = len(tests)
    chk.cov["evaluations"] = len(tests)
    chk.cov["distinct_nontrivial"] = len({t[2] for t in tests})
    chk.cov["accepted"] = nacc
    chk.cov["rejected"] = nrej
    chk.cov["exhaustive"] = True
    chk.cov["mixed_paths"] = {"what": "places behind a ^mut pointer that was itself reached through an "
                                      "immutable pointer (vi.pm.v, im^.a): the last pointer crossed decides",
                              "compiler_accepted": mixed[False], "compiler_rejected": mixed[True]}
    chk.cov["rule"] = ("every chain of Mutability.tla (9 roots, <= MaxSteps steps of field / index / "
                       "deref / auto-deref field / auto-deref index / paren / #unwrap) x "
                       "{=, +=, ^mut}; one checked statement each")


def replay(path):
    print(json.dumps(json.load(open(path))["detail"], indent=1))
    return 1
