"""C14 - immutable data can never be modified.  spec/Mutability.tla enumerates place chains."""
import json
import os

import common

PRELUDE = """putchar :: (c: i32) -> i32 extern;
T :: struct { v: i32 };
S :: struct { a: i32, arr: [2]i32, inner: T, pm: ^mut T, pi: ^T, o: ?T, pma: ^mut [2]i32, pia: ^[2]i32 };
G :: struct { a: i32, arr: [2]i32, inner: T };
fi :: (p: ^mut S) -> ^S { p }
fm :: (p: ^mut S) -> ^mut S { p }
gg :: comptime { G.{ a = 21, arr = i32.[22, 23], inner = T.{ v = 24 } } };
"""

# the initial cell values are those of spec/MutHeap.tla (InitVal)
BODY_PRE = """    t1 := T.{ v = 11 };
    t2 := T.{ v = 12 };
    a1 := i32.[13, 14];
    a2 := i32.[15, 16];
    s := S.{ a = 1, arr = i32.[2, 3], inner = T.{ v = 4 }, pm = ^mut t1, pi = ^t2, o = T.{ v = 5 }, pma = ^mut a1, pia = ^a2 };
    lm := s;
    li :: s;
    vm := ^mut s;
    vi := ^s;
    cm :: ^mut s;
    am : ^S = ^mut s;
    ii := ^vi;
    im := ^vm;
    mi := ^mut vi;
    mm := ^mut vm;
"""


def place(c):
    e = c["root"]
    if e in ("fi", "fm"):
        e += "(^mut s)"
    for st in c["steps"]:
        k = st["k"]
        if k == "field":
            e += "." + st["f"]
        elif k == "index":
            e += "[0]"
        elif k == "deref":
            e += "^"
        elif k == "paren":
            e = "(" + e + ")"
        elif k == "unwrap":
            e = "#unwrap(" + e + ", T)"
    return e


def cases_of(c):
    out = []
    p = place(c)
    if c["root"] in ("fi", "fm") and not c["steps"]:
        return out          # a call result is not a place by itself
    if c["ty"] == "i32":
        out.append(("assign", "%s = 7;" % p))
        out.append(("compound", "%s += 1;" % p))
    # `^mut x^` parses as `(^mut x)^` (prefix before postfix deref): always parenthesise the place
    out.append(("refmut", "r := ^mut (%s);" % p))
    if c["steps"] and all(st["k"] in ("field", "index") for st in c["steps"]) and c["root"] not in ("fi", "fm"):
        out.append(("refmut", "r := ^mut %s;" % p))
    return out


def run(chk):
    cfg = "Mutability_q.cfg" if chk.tier == "quick" else "Mutability_t.cfg"
    res = common.run_tlc("Mutability", cfg, chk.wd, workers=4, timeout=1800, out_name="enum.out")
    chk.require_tlc_ok("Mutability.tla (chains; incremental = definitional mutability)", res)
    chains = list(common.tlc_lines(res.out, "REPLAY"))
    os.remove(res.out)
    tests = []  # (chain, op, stmt)
    for c in chains:
        for op, stmt in cases_of(c):
            tests.append((c, op, stmt))
    # many functions per file; diagnostics are matched by line
    per = 150
    jobs, layout = [], []
    for b in range(0, len(tests), per):
        lines = PRELUDE.rstrip("\n").split("\n")
        where = {}
        for n, (c, op, stmt) in enumerate(tests[b:b + per]):
            lines.append("f%d :: (ps: S, qm: ^mut S, qi: ^S, qii: ^^S, qmi: ^mut ^S, qmm: ^mut ^mut S) {" % n)
            lines += BODY_PRE.rstrip("\n").split("\n")
            lines.append("    " + stmt)
            where[len(lines)] = b + n
            lines.append("}")
        lines.append("main :: () {}")
        jobs.append({"id": "b%d" % b, "files": {"main.capy": "\n".join(lines) + "\n"},
                     "stop_after": "infer", "timeout_ms": 60000})
        layout.append(where)
    results = common.run_batch(jobs, chk.wd, "mut")
    nacc = nrej = 0
    accepted = set()
    mixed = {True: 0, False: 0}
    for job, where, r in zip(jobs, layout, results):
        if r.get("panic") or r.get("crash"):
            chk.violation({"kind": "front-end-crash", "job": job["id"]},
                          {"panic": r.get("panic"), "crash": r.get("crash"),
                           "note": "the checker crashed on a batch of place expressions"})
            continue
        errs = {}
        other = []
        for d in r["diags"]:
            if d["sev"] != "error":
                continue
            try:
                line = int(d["header"].split(":")[0])
            except ValueError:
                continue
            if line in where:
                errs.setdefault(line, []).append(d["kind"])
            else:
                other.append((line, d["kind"]))
        if other:
            raise common.ToolError("unexpected diagnostics outside the tested lines: %s" % other[:5])
        for line, idx in where.items():
            c, op, stmt = tests[idx]
            rejected = line in errs
            if rejected:
                nrej += 1
            else:
                nacc += 1
                accepted.add(idx)
            if c.get("mixed"):
                mixed[rejected] += 1
            if rejected == c["mutable"]:
                chk.violation({"kind": "mutability", "stmt": stmt, "root": c["root"],
                               "mixed": bool(c.get("mixed")),
                               "compiler": "rejected" if rejected else "accepted"},
                              {"statement": stmt, "op": op, "place_type": c["ty"],
                               "mutable_by_the_rule": c["mutable"],
                               "compiler": "rejected %s" % errs[line] if rejected else "accepted",
                               "context": BODY_PRE, "decls": PRELUDE,
                               "how": "front end (hir_ty) on a function (ps: S, qm: ^mut S, qi: ^S, qii: ^^S, qmi: ^mut ^S, "
                                      "qmm: ^mut ^mut S) "
                                      "containing the statement"})
    nruns = alias_runs(chk, tests, accepted)
    for k in (10, 400, 1500):
        if k < len(tests):
            chk.sample({"statement": tests[k][2], "mutable": tests[k][0]["mutable"]})
    chk.cov["traces_validated_against_impl"] += len(tests)
    chk.cov["evaluations"] = len(tests) + nruns
    chk.cov["distinct_nontrivial"] = len({t[2] for t in tests})
    chk.cov["accepted"] = nacc
    chk.cov["rejected"] = nrej
    chk.cov["exhaustive"] = True
    chk.cov["mixed_paths"] = {"what": "places behind a ^mut pointer that was itself reached through an "
                                      "immutable pointer (vi.pm.v, im^.a): the last pointer crossed decides",
                              "compiler_accepted": mixed[False], "compiler_rejected": mixed[True]}
    chk.cov["rule"] = ("every chain of Mutability.tla (9 roots, <= MaxSteps steps of field / index / "
                       "deref / auto-deref field / auto-deref index / paren / #unwrap) x "
                       "{=, +=, ^mut}; one checked statement each")


PARAMS = "ps: S, qm: ^mut S, qi: ^S, qii: ^^S, qmi: ^mut ^S, qmm: ^mut ^mut S"
CALLER = """    mt1 := T.{ v = 111 };
    mt2 := T.{ v = 112 };
    ma1 := i32.[113, 114];
    ma2 := i32.[115, 116];
    w := S.{ a = 101, arr = i32.[102, 103], inner = T.{ v = 104 }, pm = ^mut mt1, pi = ^mt2, o = T.{ v = 105 }, pma = ^mut ma1, pia = ^ma2 };
    wi := ^w;
    wm := ^mut w;
"""


def pick_readers(chains):
    """for every i32 cell of the heap: its shortest reading chain and the shortest one from a
    different root (an alias)"""
    by_loc = {}
    for c in chains:
        if c["ty"] != "i32":
            continue
        by_loc.setdefault(tuple(c["loc"]), []).append(c)
    readers = []
    for loc in sorted(by_loc):
        cs = sorted(by_loc[loc], key=lambda c: (len(c["steps"]), c["root"], place(c)))
        readers.append(cs[0])
        for c in cs[1:]:
            if c["root"] != cs[0]["root"]:
                readers.append(c)
                break
    return readers


def alias_runs(chk, tests, accepted):
    """execute every accepted store and read every cell back through the readers; the records are
    validated by TraceAlias.tla"""
    import props.c08 as c08
    chains = {json.dumps(t[0], sort_keys=True): t[0] for t in tests}.values()
    readers = pick_readers(chains)
    cases = []
    for idx, (c, op, stmt) in enumerate(tests):
        if idx not in accepted or not c["mutable"] or c["ty"] != "i32":
            continue
        if op == "refmut":
            cases.append((c, "refmut", stmt + " r^ = 7;"))
        else:
            cases.append((c, op, stmt))

    def program(cs):
        out = [c08.prelude(), PRELUDE.replace("putchar :: (c: i32) -> i32 extern;\n", ""),
               "pr :: (v: i32) { x := v; emit(^x, 4); putchar(32); }"]
        for n, (c, op, stmt) in enumerate(cs):
            out.append("f%d :: (%s) {" % (n, PARAMS))
            out.append(BODY_PRE.rstrip("\n"))
            out.append("    " + stmt)
            out.append("    " + " ".join("pr(%s);" % place(r) for r in readers))
            out.append("    nl();")
            out.append("}")
            out.append("c%d :: () {" % n)
            out.append(CALLER.rstrip("\n"))
            out.append("    f%d(w, ^mut w, ^w, ^wi, ^mut wi, ^mut wm);" % n)
            out.append("}")
        out.append("main :: () {")
        out += ["    c%d();" % n for n in range(len(cs))]
        out.append("}")
        return "\n".join(out) + "\n"

    res = common.run_case_programs(chk, cases, program, "alias", per=40, timeout_ms=120000)
    recs, meta = [], []
    for (c, op, stmt), (line, why) in zip(cases, res):
        if line is None:
            chk.violation({"kind": "alias-run", "stmt": stmt, "why": why.split(":")[0]},
                          {"statement": stmt, "what": "the checker accepted the store (front-end "
                           "phase) but the program around it did not compile / run", "why": why})
            continue
        toks = line.split()
        if len(toks) != len(readers):
            chk.violation({"kind": "alias-run", "stmt": stmt, "why": "output"},
                          {"statement": stmt, "line": line[:300]})
            continue
        vals = [int.from_bytes(bytes.fromhex(t), "little", signed=True) for t in toks]
        recs.append({"w": c["loc"], "op": op,
                     "reads": [{"loc": r["loc"], "val": v} for r, v in zip(readers, vals)]})
        meta.append(stmt)
    bad = common.tlc_validate_sharded(chk, "TraceAlias", "TraceAlias.cfg", recs, "alias")
    for gi, b in bad:
        wrong = b["wrong"]
        wrong = list(wrong.values()) if isinstance(wrong, dict) else wrong
        chk.violation({"kind": "alias", "stmt": meta[gi]},
                      {"statement": meta[gi], "written_location": recs[gi]["w"], "op": recs[gi]["op"],
                       "wrong_reads": wrong,
                       "readers": {"/".join(r["loc"]): place(r) for r in readers},
                       "context": BODY_PRE, "caller": CALLER,
                       "how": "the store is executed in f(%s) called as f(w, ^mut w, ^w, ^wi, ^mut wi, "
                              "^mut wm); afterwards every i32 cell is printed through its readers; "
                              "TraceAlias.tla prescribes After(op, written, cell)" % PARAMS})
    chk.cov["alias_runs"] = {"stores_executed": len(recs), "readers_per_store": len(readers),
                             "cells": len({tuple(r["loc"]) for r in readers}),
                             "written_cells": len({tuple(r["w"]) for r in recs})}
    return len(recs)


def replay(path):
    print(json.dumps(json.load(open(path))["detail"], indent=1))
    return 1
