"""C06 - the compiler never crashes or hangs, whatever it is given.  spec/Pipeline.tla."""
import json
import random

import common
import corpus
import pipeline_common as P


def norm_msg(msg):
    """panic message with the input-specific parts removed"""
    import re
    msg = msg.strip()
    if "Error defining function" in msg:
        msg = msg[msg.index("Error defining function"):]
    # the quoted source text of a slicing panic may itself contain backticks: it ends the message
    msg = re.sub(r"(is out of bounds of|is not a char boundary; it is inside .* of) `.*$", r"\1 `_`", msg, flags=re.S)
    msg = re.sub(r"`[^`]*`", "`_`", msg)
    msg = re.sub(r"[\w#]+(::[\w#<>]+)+", "P", msg)
    msg = re.sub(r"[0-9]+", "N", msg)
    return msg[:90]


def site_of(pan):
    """the innermost function of the code under test on the panicking stack (survives line shifts)"""
    loc = pan.get("loc", "") or ""
    return loc.split(" in ", 1)[1] if " in " in loc else loc


REGULAR = ("frontend", "infer", "diagnostics", "comptime", "no-entry", "codegen", "link")


def sig_of(job, r, rec, b):
    pan = r.get("panic") or {}
    msg = pan.get("msg") or ""
    ev = rec["ev"][b["at"] - 1] if rec["ev"] else "none"
    if ev == "render-failed":
        # the panic inside Diagnostic::display: message and innermost function
        for d in r["diags"]:
            if not d["render_ok"] and d["text"].startswith("RENDER PANIC "):
                body = d["text"][len("RENDER PANIC "):]
                m, _, loc = body.rpartition(" @ ")
                return {"kind": "compile-outcome", "event": ev, "site": loc.split(" in ", 1)[1] if " in " in loc else loc,
                        "msg": norm_msg(m)}
    if msg.startswith("exit:"):
        msg = (r.get("compiler_stdout_tail") or "")[:200] or msg
    return {"kind": "compile-outcome", "event": rec["ev"][b["at"] - 1] if rec["ev"] else "none",
            "site": site_of(pan), "msg": norm_msg(msg)}


def inputs(chk):
    rng = random.Random(chk.seed + 6)
    jobs = []
    base = P.base_programs()
    for n, (name, files) in enumerate(base):
        jobs.append((("corpus:" + name), files))
    nm = 900 if chk.tier == "quick" else 25000
    for k in range(nm):
        name, files = rng.choice(base)
        files = dict(files)
        fn = rng.choice(sorted(files))
        if rng.random() < 0.6:
            files[fn] = corpus.mutate_tokens(rng, files[fn], rng.randrange(1, 3))
            kind = "tok"
        else:
            files[fn] = corpus.mutate_bytes(rng, files[fn], rng.randrange(1, 3))
            kind = "byte"
        jobs.append(("%s:%s" % (kind, name), files))
    # generated well-typed programs (tools/capygen.py: the fragment of CapySem.tla), then mutated
    import capygen
    from props import c08
    ng = 200 if chk.tier == "quick" else 6000
    for k in range(ng):
        text = c08.prelude() + capygen.Render().program(capygen.Gen(chk.seed * 6007 + 60000 + k, size=6 + k % 12).program())
        if rng.random() < 0.7:
            text = corpus.mutate_tokens(rng, text, rng.randrange(1, 4))
            kind = "gen-tok"
        else:
            text = corpus.mutate_bytes(rng, text, rng.randrange(1, 3))
            kind = "gen-byte"
        jobs.append((kind, {"main.capy": text}))
    ns = 150 if chk.tier == "quick" else 4000
    for k in range(ns):
        jobs.append(("soup", {"main.capy": corpus.token_soup(rng, rng.randrange(1, 30))}))
        jobs.append(("unicode", {"main.capy": corpus.random_unicode(rng, rng.randrange(1, 120))}))
    for kind in range(6):
        jobs.append(("nest%d" % kind, {"main.capy": corpus.nested(200, kind) + "\nmain :: () {}\n"}))
    jobs.append(("64k", {"main.capy": ("x :: 1;\n" * 9000)[:65536] + "\nmain :: () {}\n"}))
    jobs += regress_inputs()
    jobs += geometry_inputs(chk.tier)
    return jobs


def geometry_inputs(tier):
    """diagnostics of every snippet geometry: an error range of L lines (a struct literal missing a
    member) that starts after S lines and is followed by K more lines (K = 0: it ends on the last
    line of the file).  Rendering must succeed for all of them (C06) with the right header (C25)."""
    out = []
    ls = range(1, 17) if tier == "quick" else range(1, 40)
    for S in (0, 1, 3, 95, 995):
        for L in ls:
            for K in (0, 1, 2, 3, 6):
                members = max(0, L - 2)
                decl = "Config :: struct { %s debug: bool };" % " ".join("m%d: i32," % k for k in range(members))
                pad = ["// pad %d" % k for k in range(S)]
                if L == 1:
                    lit = ["c :: Config.{ %s };" % ", ".join("m%d = %d" % (k, k) for k in range(members))]
                else:
                    lit = ["c :: Config.{"] + ["    m%d = %d," % (k, k) for k in range(members)] + ["};"]
                tail = ["// after %d" % k for k in range(K)]
                text = "\n".join([decl] + pad + lit + tail)
                if K > 0:
                    text += "\n"
                out.append(("geom:S%d:L%d:K%d" % (S, L, K), {"main.capy": text}))
    return out


def regress_inputs():
    """witnesses of the recorded findings (and of repaired defects): always part of the input set"""
    import os
    d = os.path.join(os.path.dirname(os.path.abspath(__file__)), "..", "c06_inputs")
    out = []
    for f in sorted(os.listdir(d)):
        p = os.path.join(d, f)
        if f.endswith(".json"):
            out.append(("regress:" + f, json.load(open(p))["files"]))
        elif f.endswith(".capy"):
            out.append(("regress:" + f, {"main.capy": open(p).read()}))
    return out


def run(chk):
    named = inputs(chk)
    jobs = [P.job("j%d" % n, files, link=True) for n, (name, files) in enumerate(named)]
    results = common.run_batch(jobs, chk.wd, "c06", par=14)

    def on_bad(job, r, rec, b):
        if b["why"].startswith("does not end") or rec["ev"][b["at"] - 1] in REGULAR:
            return      # the gate is C07's; here only forbidden events
        name = named[int(job["id"][1:])][0]
        chk.violation(sig_of(job, r, rec, b),
                      {"input": name, "events": rec["ev"], "panic": r.get("panic"), "crash": r.get("crash"),
                       "cranelift_err": r.get("cranelift_err"), "link": r.get("link"),
                       "diagnostics": [(d["kind"], d["render_ok"]) for d in r["diags"]][:10],
                       "files": job["files"],
                       "how": "harness batch: stages of crates/capy main.rs through the library API"})
    recs = P.validate(chk, "c06", jobs, results, True, on_bad)
    import collections
    last = collections.Counter(r["ev"][-1] if r["ev"] else "none" for r in recs)
    chk.cov["outcomes"] = dict(last)
    for k in (3, len(jobs) // 2):
        chk.sample({"input": named[k][0], "events": recs[k]["ev"]})
    chk.cov["evaluations"] = len(jobs)
    chk.cov["distinct_nontrivial"] = len({json.dumps(j["files"], sort_keys=True) for j in jobs})
    chk.cov["rule"] = ("corpus programs (examples, sources embedded in the codegen / hir_ty tests) with "
                       "core, their token- and byte-level mutants, token soups, random Unicode, "
                       "depth-200 nesting and a 64 KiB input; each one compilation in its own "
                       "process, its stage trace validated by TracePipeline.tla")


def replay(path):
    v = json.load(open(path))
    print(json.dumps(v["detail"], indent=1)[:3000])
    return 1
