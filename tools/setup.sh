#!/bin/sh
# Build the conformance harness offline against /repo's working tree and parse every spec.
set -e
cd "$(dirname "$0")/.."
export CARGO_NET_OFFLINE=true
(cd harness && cargo build --offline -q 2>&1 | grep -E "^error" -A8 || true)
test -x harness/target/debug/capy-verif || { echo "harness build failed"; exit 2; }
mkdir -p work evidence replays
cd spec
fail=0
for f in *.tla; do
  if ! tla-sany "$f" > ../work/sany.out 2>&1; then echo "SANY failed for $f"; tail -20 ../work/sany.out; fail=1; fi
done
exit $fail
