#!/bin/sh
# Confirms, in a scratch worktree outside /repo and /verif, that each seeded change compiles and
# passes the repository's test suite. usage: confirm_seeds.sh ID...
WT=/tmp/seedconfirm
for id in "$@"; do
  git -C /repo worktree remove --force $WT 2>/dev/null
  git -C /repo worktree add -q $WT HEAD || exit 2
  if git -C $WT apply /verif/seeded/$id/patch.diff; then
    (cd $WT && CARGO_TARGET_DIR=/tmp/seedconfirm-target cargo nextest run --workspace --no-fail-fast --test-threads 8 --offline 2>&1 | grep -E "Summary|FAIL \[" | head -5) > /verif/seeded/$id/suite_result.txt 2>&1
  else
    echo "patch does not apply to HEAD" > /verif/seeded/$id/suite_result.txt
  fi
  echo "$id: $(cat /verif/seeded/$id/suite_result.txt | head -3)"
done
git -C /repo worktree remove --force $WT
rm -rf /tmp/seedconfirm-target
