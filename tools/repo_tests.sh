#!/bin/sh
# Runs the repository's pinned suite on /repo's working tree (guard off) and prints the summary.
cd ${1:-/repo} && cargo nextest run --workspace --no-fail-fast --test-threads 8 --offline 2>&1 | grep -E "^\s*(Summary|FAIL|SIGABRT|SIGSEGV|TIMEOUT)|^error" | sort | uniq | head -20
