#!/bin/sh
# mk_seed_task2.sh ID : second seeded change for ID, different from the first (summary taken from seeded/ID/meta.json)
ID=$1
WT=/tmp/seed_${ID}b
git -C /repo worktree add -q $WT HEAD || exit 2
python3 - <<PY
import json
for l in open('/verif/properties.jsonl'):
    p=json.loads(l)
    if p['id']=='$ID':
        open('/tmp/prop_${ID}.json','w').write(json.dumps(p,indent=1))
m=json.load(open('/verif/seeded/$ID/meta.json'))
t=open('/verif/tools/seed_prompt.txt').read().replace('WORKTREE','$WT').replace('PROPFILE','/tmp/prop_$ID.json')
t+="\n\nIMPORTANT: an earlier change for this property already exists and must NOT be repeated or varied: \""+m.get('summary','')[:600].replace('"',"'")+"\" (it needed: "+str(m.get('needs',''))[:400].replace('"',"'")+"). Produce a change of a DIFFERENT kind, in a different function / mechanism / clause of the property than that one.\n"
open('/tmp/seed_prompt_${ID}b.txt','w').write(t)
PY
echo "Read the file /tmp/seed_prompt_${ID}b.txt and follow its instructions exactly. It describes a task on a scratch git worktree at $WT with the property description in /tmp/prop_$ID.json. Do not touch /repo or /verif."
