#!/bin/sh
# mk_hunt_task.sh ID : a sub-agent task that looks for violations of property ID in the UNMODIFIED compiler
ID=$1
WT=/tmp/hunt_${ID}
git -C /repo worktree add -q $WT HEAD || exit 2
python3 - <<PY
import json
for l in open('/verif/properties.jsonl'):
    p=json.loads(l)
    if p['id']=='$ID':
        open('/tmp/prop_${ID}.json','w').write(json.dumps(p,indent=1))
t=open('/verif/tools/hunt_prompt.txt').read().replace('WORKTREE','$WT').replace('PROPFILE','/tmp/prop_$ID.json')
open('/tmp/hunt_prompt_${ID}.txt','w').write(t)
PY
echo "Read the file /tmp/hunt_prompt_${ID}.txt and follow its instructions exactly. It describes a task on a scratch git worktree at $WT with the property description in /tmp/prop_$ID.json. Do not touch /repo or /verif."
