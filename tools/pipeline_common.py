"""Shared by C06 C07 C21: inputs, JobResult -> Pipeline.tla trace records, TLC validation."""
import json
import os
import random

import common
import corpus

FRONT = ("syntax", "indexing", "lowering", "validation")


def to_record(r, want_link, ct_bad=None):
    """one harness JobResult -> one trace record of TracePipeline.tla"""
    herr = any(d["sev"] == "error" and d["phase"] in FRONT for d in r["diags"])
    terr = any(d["sev"] == "error" and d["phase"] == "ty" for d in r["diags"])
    texpr = any(d["sev"] == "error" and d["phase"] == "ty" and d["has_expr"] for d in r["diags"])
    ev = []
    stages = r["stages"]
    pan = r.get("panic")
    crash = r.get("crash") or ""

    def stop():
        if crash == "timeout":
            ev.append("timeout")
        elif crash.startswith("signal"):
            ev.append(crash)
        elif pan:
            ev.append("panic:" + pan["stage"])
        elif crash:
            ev.append("exit-without-diagnostics:" + crash)
        else:
            ev.append("stopped-without-outcome")
    done = False
    if "frontend" in stages:
        ev.append("frontend")
        # comptime blocks that were compiled and run while inferring print a marker byte 1..8
        seen = []
        for ch in r.get("compiler_stdout_markers", ""):
            if ch not in seen:
                seen.append(ch)
        if ct_bad is not None:
            ev += ["ct:" + ch for ch in seen]
        if "infer" in stages:
            ev.append("infer")
            if any(not d["render_ok"] for d in r["diags"]):
                ev.append("render-failed")
                done = True
            elif r["has_errors"]:
                ev.append("diagnostics")
                done = True
            elif "comptime" in stages:
                ev.append("comptime")
                if r["entry_count"] != 1:
                    ev.append("no-entry")
                    done = True
                elif "codegen" in stages:
                    if r["cranelift_err"]:
                        ev.append("cranelift-error")
                        done = True
                    else:
                        ev.append("codegen")
                        if not want_link:
                            done = True
                        elif "link" in stages:
                            if r["link"] == "ok":
                                ev.append("link")
                            else:
                                ev.append("link-failed")
                            done = True
    if not done:
        stop()
    return {"id": r["id"], "ev": ev, "herr": herr, "terr": terr, "texpr": texpr,
            "unsafe": r["any_unsafe"], "entries": r["entry_count"], "want_link": want_link,
            "ct_bad": list(ct_bad or [])}


def validate(chk, name, jobs, results, want_link, on_bad, ct_bad=None):
    recs = [to_record(r, want_link, (ct_bad or {}).get(j["id"])) for j, r in zip(jobs, results)]
    trace = os.path.join(chk.wd, name + ".trace.ndjson")
    common.write_ndjson(trace, recs)
    res = common.run_tlc("TracePipeline", "TracePipeline.cfg", chk.wd, workers=1, timeout=3000,
                         env={"TRACE": trace}, out_name=name + ".tlc.out")
    chk.require_tlc_ok("TracePipeline.tla on " + name, res)
    chk.cov["traces_validated_against_impl"] += len(recs)
    seen = set()
    for b in common.tlc_lines(res.out, "BAD"):
        if b["idx"] in seen:
            continue
        seen.add(b["idx"])
        on_bad(jobs[b["idx"] - 1], results[b["idx"] - 1], recs[b["idx"] - 1], b)
    return recs


def split_multi(text):
    """codegen / hir_ty test sources: '#- file.capy' separators (test_utils::split_multi_module_test_data)"""
    files = {}
    cur = "main.capy"
    buf = []
    for line in text.split("\n"):
        if line.lstrip().startswith("#- "):
            if buf and "".join(buf).strip():
                files[cur] = "\n".join(buf)
            cur = line.lstrip()[3:].strip()
            buf = []
        else:
            buf.append(line)
    if buf:
        files[cur] = "\n".join(buf)
    return files


def base_programs():
    """(name, files) of whole programs in the corpus"""
    out = []
    for name, text in corpus.source_files():
        if name.startswith("examples/"):
            out.append((name, {"main.capy": text}))
    for name, text in corpus.embedded_sources():
        if "::" in text and len(text) < 6000:
            files = split_multi(text)
            if "main.capy" in files:
                out.append((name, files))
    return out


def job(jid, files, link=True, timeout=30000, mod_dir="repo", track=True):
    return {"id": jid, "files": files, "main": "main.capy", "mod_dir": mod_dir, "link": link,
            "run": False, "timeout_ms": timeout, "track_unsafe": track}
