"""Shared orchestration: harness build, TLC runs, evidence, verdict lines.

Exit codes of a check: 0 = held on everything explored, 1 = VIOLATION line(s) printed,
2 = tool error (never used to hide a violation).
"""
import hashlib
import json
import os
import re
import shutil
import subprocess
import sys
import time

VERIF = os.path.dirname(os.path.dirname(os.path.abspath(__file__)))
SPEC = os.path.join(VERIF, "spec")
HARNESS_DIR = os.path.join(VERIF, "harness")
HARNESS = os.path.join(HARNESS_DIR, "target", "debug", "capy-verif")
WORK = os.path.join(VERIF, "work")
REPLAYS = os.path.join(VERIF, "replays")
EVIDENCE = os.path.join(VERIF, "evidence")
KNOWN = os.path.join(VERIF, "known_findings.json")
REPO = "/repo"


class ToolError(Exception):
    pass


def log(*a):
    print(*a, flush=True)


def sh(cmd, **kw):
    return subprocess.run(cmd, **kw)


def build_harness():
    """(Re)build the harness against /repo's current working tree, hooks on (--cfg capy_verif)."""
    env = dict(os.environ)
    env["CARGO_NET_OFFLINE"] = "true"
    t0 = time.time()
    r = sh(["cargo", "build", "--offline", "-q"], cwd=HARNESS_DIR, env=env,
           stdout=subprocess.PIPE, stderr=subprocess.STDOUT, text=True)
    if r.returncode != 0:
        log(r.stdout[-4000:])
        raise ToolError("harness build failed")
    return time.time() - t0


def workdir(pid, clean=True):
    d = os.path.join(WORK, pid.lower())
    if clean and os.path.isdir(d):
        shutil.rmtree(d, ignore_errors=True)
    os.makedirs(d, exist_ok=True)
    return d


TLC_JAR = "/opt/veriftools/tla/tla2tools.jar"


def tlc_cmd():
    return shutil.which("tlc") or "tlc"


class TlcResult:
    def __init__(self):
        self.ok = False
        self.generated = 0
        self.distinct = 0
        self.depth = 0
        self.out = ""
        self.errors = []
        self.coverage = {}
        self.wall = 0.0
        self.rc = 0


def run_tlc(module, cfg, wd, env=None, workers=4, timeout=1800, extra=None, dfs=False,
            xmx=None, out_name=None, coverage=False):
    """Run TLC on spec/<module>.tla with spec/<cfg>. Output is written to <wd>/<out_name>."""
    e = dict(os.environ)
    jopts = "-Xss1g"
    if dfs:
        jopts += " -Dtlc2.tool.queue.IStateQueue=StateDeque"
    if xmx:
        jopts += " -Xmx" + xmx
    jtmp = os.path.join(wd, "jtmp_" + (out_name or module))
    os.makedirs(jtmp, exist_ok=True)
    jopts += " -Djava.io.tmpdir=" + jtmp       # TLC unpacks its standard modules there
    e["JAVA_TOOL_OPTIONS"] = jopts
    if env:
        e.update(env)
    meta = os.path.join(wd, "meta_" + (out_name or module))
    shutil.rmtree(meta, ignore_errors=True)
    # java is started directly (not through the `tlc` wrapper) so that -Xss is on the command line:
    # the launcher sizes the MAIN thread's stack from it (JAVA_TOOL_OPTIONS is read too late for that),
    # and TLC evaluates the initial states and their invariants on the main thread
    java = ["java", "-Xss1g", "-XX:+UseParallelGC", "-cp",
            TLC_JAR + ":/opt/veriftools/tla/CommunityModules-deps.jar", "tlc2.TLC"]
    cmd = ["timeout", str(timeout)] + java + ["-workers", str(workers), "-metadir", meta,
           "-cleanup", "-noGenerateSpecTE", "-config", os.path.join(SPEC, cfg)]
    if coverage:
        cmd += ["-coverage", "1"]
    if extra:
        cmd += extra
    cmd += [os.path.join(SPEC, module + ".tla")]
    outp = os.path.join(wd, out_name or (module + ".tlc.out"))
    t0 = time.time()
    with open(outp, "w") as f:
        r = sh(cmd, cwd=SPEC, env=e, stdout=f, stderr=subprocess.STDOUT)
    res = TlcResult()
    res.wall = time.time() - t0
    res.rc = r.returncode
    res.out = outp
    shutil.rmtree(meta, ignore_errors=True)
    shutil.rmtree(jtmp, ignore_errors=True)
    summary_re = re.compile(r"^(\d+) states generated, (\d+) distinct states found")
    depth_re = re.compile(r"depth of the complete state graph search is (\d+)")
    with open(outp, errors="replace") as f:
        for line in f:
            if line.startswith('"'):
                continue
            m = summary_re.match(line)
            if m:
                res.generated = int(m.group(1))
                res.distinct = int(m.group(2))
            m = depth_re.search(line)
            if m:
                res.depth = int(m.group(1))
            if line.startswith("Error:") or "TLC threw an unexpected exception" in line \
                    or "is violated" in line or "Semantic errors" in line \
                    or "Parsing or semantic analysis failed" in line \
                    or "was violated" in line or "Assumption" in line and "is false" in line:
                res.errors.append(line.strip())
            if "Model checking completed. No error has been found." in line:
                res.ok = True
            if line.startswith("Finished in") and not res.errors and res.generated == 0:
                pass
    if r.returncode == 124:
        res.errors.append("TLC timeout after %ss" % timeout)
    if res.errors:
        res.ok = False
    return res


def tlc_lines(path, tag):
    """Yield the JSON payloads of PrintT("<tag> " \\o ToJson(x)) lines in a TLC output file."""
    prefix = '"%s ' % tag
    with open(path, errors="replace") as f:
        for line in f:
            if line.startswith(prefix):
                try:
                    s = json.loads(line)
                except Exception:
                    continue
                yield json.loads(s[len(tag) + 1:])


def tlc_tuples(path, tag):
    """Yield the raw text of PrintT(<<"tag", ...>>) one-line tuples."""
    prefix = '<<"%s"' % tag
    with open(path, errors="replace") as f:
        for line in f:
            if line.startswith(prefix):
                yield line.strip()


def repo_tree_hash():
    try:
        head = subprocess.run(["git", "-C", REPO, "rev-parse", "HEAD"], capture_output=True,
                              text=True).stdout.strip()
        diff = subprocess.run(["git", "-C", REPO, "diff", "HEAD"], capture_output=True).stdout
        return head[:12] + "+" + hashlib.sha256(diff).hexdigest()[:8]
    except Exception:
        return "unknown"


def load_known():
    if not os.path.exists(KNOWN):
        return {"findings": [], "fixed": []}
    with open(KNOWN) as f:
        return json.load(f)


class Check:
    """One run of one property's check."""

    def __init__(self, pid, tier, level="model_checking"):
        self.pid = pid
        self.tier = tier
        self.level = level
        self.seed = int(os.environ.get("VERIF_SEED", "0") or 0)
        self.t0 = time.time()
        self.violations = []
        self.known_hit = {}
        self.drift = []
        self.cov = {"states": 0, "transitions": 0, "traces_validated_against_impl": 0,
                    "samples": [], "evaluations": 0, "distinct_nontrivial": 0, "rule": "",
                    "exhaustive": False, "tlc_runs": [], "notes": []}
        self.assumptions = []
        self.known = [k for k in load_known().get("findings", []) if k.get("property") == pid]
        self.wd = workdir(pid)

    # -- TLC bookkeeping
    def add_tlc(self, name, res):
        self.cov["states"] += res.distinct
        self.cov["transitions"] += res.generated
        self.cov["tlc_runs"].append({"name": name, "distinct": res.distinct,
                                     "generated": res.generated, "depth": res.depth,
                                     "wall_s": round(res.wall, 1), "ok": res.ok})

    def require_tlc_ok(self, name, res):
        self.add_tlc(name, res)
        if not res.ok:
            log("TLC run %s failed: %s (see %s)" % (name, res.errors[:3], res.out))
            raise ToolError("TLC run %s failed" % name)

    # -- verdicts
    def match_known(self, sig):
        """sig: dict describing the failing case; a known finding matches if all of its
        `match` keys are equal in sig."""
        for k in self.known:
            m = k.get("match", {})
            if m and all(sig.get(a) == b for a, b in m.items()):
                return k
        return None

    def violation(self, sig, detail):
        k = self.match_known(sig)
        if k is not None:
            kid = k.get("id", "?")
            if kid not in self.known_hit:
                self.known_hit[kid] = (k, 0)
            self.known_hit[kid] = (k, self.known_hit[kid][1] + 1)
            return False
        self.violations.append({"sig": sig, "detail": detail})
        return True

    def note_drift(self, what):
        if len(self.drift) < 20:
            self.drift.append(what)

    def sample(self, x):
        if len(self.cov["samples"]) < 8:
            self.cov["samples"].append(x)

    def finish(self):
        os.makedirs(EVIDENCE, exist_ok=True)
        os.makedirs(REPLAYS, exist_ok=True)
        for kid, (k, n) in self.known_hit.items():
            log("KNOWN-FINDING: property=%s %s (%s; %d cases)" % (self.pid, k.get("what", ""), kid, n))
        for d in self.drift:
            log("MODEL-DRIFT: property=%s %s" % (self.pid, d))
        rdir = os.path.join(REPLAYS, self.pid)
        shutil.rmtree(rdir, ignore_errors=True)
        if self.violations:
            os.makedirs(rdir, exist_ok=True)
        for n, v in enumerate(self.violations[:25]):
            p = os.path.join(rdir, "v%03d.json" % n)
            with open(p, "w") as f:
                json.dump({"property": self.pid, "tier": self.tier, "seed": self.seed, **v}, f,
                          indent=1)
            log("VIOLATION property=%s replay=%s" % (self.pid, p))
            log("  detail: %s" % json.dumps(v["detail"])[:600])
        if len(self.violations) > 25:
            log("  (... %d more violations not written)" % (len(self.violations) - 25))
        cov = dict(self.cov)
        cov["known_findings_hit"] = {kid: n for kid, (k, n) in self.known_hit.items()}
        cov["model_drift"] = self.drift
        import collections
        cov["violation_groups"] = dict(collections.Counter(
            json.dumps(v["sig"], sort_keys=True)[:200] for v in self.violations).most_common(40))
        cov["repo_tree"] = repo_tree_hash()
        if not cov["samples"]:
            cov["samples"] = ["(no sample recorded)"]
        ev = {
            "property_id": self.pid,
            "tier": self.tier,
            "seed": self.seed,
            "level": self.level,
            "coverage": cov,
            "assumptions": self.assumptions,
            "wall_s": round(time.time() - self.t0, 1),
            "violations": len(self.violations),
        }
        with open(os.path.join(EVIDENCE, self.pid + ".json"), "w") as f:
            json.dump(ev, f, indent=1)
        log("%s %s: %d violations, %d known-finding groups, states=%d transitions=%d traces=%d evals=%d wall=%.0fs"
            % (self.pid, self.tier, len(self.violations), len(self.known_hit), cov["states"],
               cov["transitions"], cov["traces_validated_against_impl"], cov["evaluations"],
               time.time() - self.t0))
        return 1 if self.violations else 0


def harness(args, timeout=3600):
    r = sh([HARNESS] + args, stdout=subprocess.PIPE, stderr=subprocess.PIPE, text=True,
           timeout=timeout)
    if r.returncode != 0:
        log(r.stderr[-2000:])
        raise ToolError("harness %s failed rc=%d" % (args[0], r.returncode))
    return r


def read_ndjson(path):
    with open(path) as f:
        for line in f:
            line = line.strip()
            if line:
                yield json.loads(line)


def write_ndjson(path, recs):
    n = 0
    with open(path, "w") as f:
        for r in recs:
            f.write(json.dumps(r, separators=(",", ":")) + "\n")
            n += 1
    return n


def run_batch(jobs, wd, name="batch", par=14, retry=True):
    """Compile (and run) jobs through the harness pipeline, one child process each."""
    jp = os.path.join(wd, name + ".jobs.ndjson")
    op = os.path.join(wd, name + ".results.ndjson")
    write_ndjson(jp, jobs)
    harness(["batch", "--jobs", jp, "--out", op, "--work", os.path.join(wd, name + ".w"),
             "--par", str(par)])
    res = list(read_ndjson(op))
    shutil.rmtree(os.path.join(wd, name + ".w"), ignore_errors=True)
    # a time-out under load is not a hang: run every timed-out job again, alone, with four times
    # the limit, and believe that second run
    slow = [k for k, r in enumerate(res) if r.get("crash") == "timeout" or (r.get("run") or {}).get("timeout")]
    if slow and retry:
        again = []
        for k in slow:
            j = dict(jobs[k])
            j["timeout_ms"] = 4 * int(j.get("timeout_ms", 20000))
            again.append(j)
        res2 = run_batch(again, wd, name + "_retry", par=2, retry=False)
        for k, r in zip(slow, res2):
            res[k] = r
    return res


def run_case_programs(chk, cases, program, name, per=150, timeout_ms=30000, mod_dir="", extra_files=None):
    """Compile+run `cases` in batches of `per`: program(list_of_cases) -> source text of one
    executable that prints exactly one line per case.  A batch that is rejected / crashes / does
    not exit 0 is split until the offending cases are isolated.
    Returns a list of (line or None, why) per case."""
    results = [None] * len(cases)
    todo = [list(range(i, min(i + per, len(cases)))) for i in range(0, len(cases), per)]
    rnd = 0
    while todo:
        jobs = []
        for bi, idxs in enumerate(todo):
            files = {"main.capy": program([cases[i] for i in idxs])}
            if extra_files:
                files.update(extra_files)
            jobs.append({"id": "b%d" % bi, "files": files, "run": True, "timeout_ms": timeout_ms,
                         "mod_dir": mod_dir})
        res = run_batch(jobs, chk.wd, "%s_r%d" % (name, rnd))
        nxt = []
        for idxs, r in zip(todo, res):
            ok = r.get("run") and r["run"].get("status") == 0 and not r["has_errors"] \
                and not r.get("panic")
            lines = r["run"]["stdout"].split("\n") if r.get("run") else []
            if ok and len(lines) >= len(idxs):
                for n, i in enumerate(idxs):
                    results[i] = (lines[n], "")
            elif len(idxs) == 1:
                if r["has_errors"]:
                    why = "rejected: " + ",".join(sorted({d["kind"] for d in r["diags"] if d["sev"] == "error"}))
                elif r.get("panic"):
                    why = "panic: %s @ %s" % (r["panic"].get("msg", "")[:80], r["panic"].get("loc", ""))
                elif r.get("cranelift_err"):
                    why = "cranelift: " + r["cranelift_err"][:80]
                elif r.get("crash"):
                    why = "crash: " + r["crash"]
                else:
                    why = "run: %s" % json.dumps(r.get("run"))[:200]
                results[idxs[0]] = (None, why)
            else:
                h = max(1, len(idxs) // 4)
                nxt += [idxs[j:j + h] for j in range(0, len(idxs), h)]
        todo = nxt
        rnd += 1
    return results


def tlc_validate_sharded(chk, module, cfg, recs, name, shards=6, timeout=3000, env=None, per_shard=200):
    """Validate trace records with <module>.tla in `shards` parallel TLC runs (one worker each).
    Returns the list of (global index, BAD payload)."""
    import concurrent.futures
    n = len(recs)
    if n == 0:
        return []
    shards = max(1, min(shards, (n + per_shard - 1) // per_shard))
    size = (n + shards - 1) // shards
    parts = []
    for s in range(shards):
        lo = s * size
        hi = min(n, lo + size)
        if lo >= hi:
            break
        p = os.path.join(chk.wd, "%s.%d.ndjson" % (name, s))
        write_ndjson(p, recs[lo:hi])
        parts.append((s, lo, p))

    def one(part):
        s, lo, p = part
        e = {"TRACE": p}
        if env:
            e.update(env)
        return run_tlc(module, cfg, chk.wd, workers=1, timeout=timeout, env=e,
                       out_name="%s.%d.tlc.out" % (name, s))
    with concurrent.futures.ThreadPoolExecutor(max_workers=len(parts)) as ex:
        outs = list(ex.map(one, parts))
    bad = []
    for (s, lo, p), res in zip(parts, outs):
        chk.require_tlc_ok("%s.tla on %s shard %d" % (module, name, s), res)
        seen = set()
        for b in tlc_lines(res.out, "BAD"):
            if b["idx"] in seen:
                continue
            seen.add(b["idx"])
            bad.append((lo + b["idx"] - 1, b))
    chk.cov["traces_validated_against_impl"] += n
    return bad


def front_end_verdicts(chk, snippets, prelude, name, per=200, mod_dir="", timeout_ms=60000, extra_files=None, extra_lines=None):
    """Type-check many snippets (each one or more whole lines of top-level Capy) in batches and
    attribute every error diagnostic to the snippet whose lines contain its start.
    Returns a list of dicts {accepted, kinds, crash} per snippet (crash = the front end died on
    the batch; the batch is then split to isolate it)."""
    out = [None] * len(snippets)
    todo = [list(range(i, min(i + per, len(snippets)))) for i in range(0, len(snippets), per)]
    rnd = 0
    pre_lines = prelude.rstrip("\n").split("\n")
    while todo:
        jobs, layouts = [], []
        for bi, idxs in enumerate(todo):
            lines = list(pre_lines)
            where = []
            for i in idxs:
                sl = snippets[i].rstrip("\n").split("\n")
                where.append((len(lines) + 1, len(lines) + len(sl), i))
                lines += sl
            lines.append("main :: () {}")
            files = {"main.capy": "\n".join(lines) + "\n"}
            if extra_files:
                files.update(extra_files)
            jobs.append({"id": "fe%d" % bi, "files": files,
                         "stop_after": "infer", "timeout_ms": timeout_ms, "mod_dir": mod_dir})
            layouts.append(where)
        res = run_batch(jobs, chk.wd, "%s_fe%d" % (name, rnd))
        nxt = []
        for idxs, where, r in zip(todo, layouts, res):
            if r.get("panic") or r.get("crash"):
                if len(idxs) == 1:
                    out[idxs[0]] = {"accepted": False, "kinds": [], "crash": r.get("panic") or r.get("crash")}
                else:
                    h = max(1, len(idxs) // 4)
                    nxt += [idxs[j:j + h] for j in range(0, len(idxs), h)]
                continue
            per_snip = {i: [] for i in idxs}
            stray = []
            for d in r["diags"]:
                if d["sev"] != "error":
                    continue
                try:
                    line = int(d["header"].split(":")[0])
                except ValueError:
                    stray.append(d["kind"])
                    continue
                if not d["file"].endswith("main.capy"):
                    owner = (extra_lines or {}).get(os.path.basename(d["file"]), {}).get(line)
                    if owner is None:
                        stray.append("%s@%s:%d" % (d["kind"], os.path.basename(d["file"]), line))
                    elif owner in per_snip:
                        per_snip[owner].append(d["kind"])
                    continue
                for lo, hi, i in where:
                    if lo <= line <= hi:
                        per_snip[i].append(d["kind"])
                        break
                else:
                    stray.append("%s@%d" % (d["kind"], line))
            if stray:
                raise ToolError("diagnostics outside the tested snippets: %s" % stray[:5])
            for i in idxs:
                out[i] = {"accepted": not per_snip[i], "kinds": per_snip[i], "crash": None}
        todo = nxt
        rnd += 1
    return out
