#!/bin/sh
# seed_try.sh <patch.diff> <PID> [tier] : apply a seeded change to /repo, run one check, undo.
P=$1; ID=$2; TIER=${3:-quick}
test -z "$(git -C /repo status --porcelain)" || { echo "/repo not clean"; exit 2; }
git -C /repo apply "$P" || { echo "patch does not apply"; exit 2; }
cd /verif && python3 tools/check.py $ID --tier $TIER > work/seed_$ID.log 2>&1; rc=$?
git -C /repo checkout -- . 
(cd /verif/harness && cargo build --offline -q 2>/dev/null)   # the harness binaries follow the clean tree again
echo "exit=$rc"; grep -c "^VIOLATION" work/seed_$ID.log; grep -E "^VIOLATION|detail|KNOWN|TOOL" work/seed_$ID.log | head -${4:-6} | cut -c1-500
tail -1 work/seed_$ID.log
