-------------------------------- MODULE LineCol --------------------------------
(***************************************************************************)
(* C25: reported line and column are exactly right.                        *)
(*                                                                         *)
(* Record kinds (one observation of the real code each):                   *)
(*  - enumeration record  [b |-> bytes, lc |-> <<<<line, col>>, ...>>]     *)
(*    LineIndex::line_col for every byte offset 0..Len(b) of one text      *)
(*  - diagnostic record   [nl |-> newline offsets, start |-> o,            *)
(*                         hl |-> line, hc |-> col]                        *)
(*    the 1-based header of a rendered diagnostic whose range starts at o  *)
(***************************************************************************)
EXTENDS Naturals, Sequences, FiniteSets, TLC, Json, IOUtils

Rec == ndJsonDeserialize(IOEnv.TRACE)
ExpectN == atoi(IOEnv.EXPECT_N)

VARIABLE i
vars == <<i>>

NL == 10
(* the definition in the property: bytes before offset o are b[1..o] *)
Line(b, o) == Cardinality({k \in 1..o : b[k] = NL})
LineStart(b, o) == LET S == {k \in 1..o : b[k] = NL} IN
                   IF S = {} THEN 0 ELSE CHOOSE k \in S : \A j \in S : j <= k
Col(b, o) == o - LineStart(b, o)

EnumOk(r) ==
    /\ r.panic = ""
    /\ Len(r.lc) = Len(r.b) + 1
    /\ \A o \in 0..Len(r.b) : r.lc[o + 1] = <<Line(r.b, o), Col(r.b, o)>>

(* newline offsets are 0-based byte offsets of the newline characters *)
DiagOk(r) ==
    LET before == {k \in 1..Len(r.nl) : r.nl[k] < r.start}
        lstart == IF before = {} THEN 0
                  ELSE 1 + r.nl[CHOOSE k \in before : \A j \in before : r.nl[j] <= r.nl[k]]
    IN /\ r.hl = Cardinality(before) + 1
       /\ r.hc = (r.start - lstart) + 1

IsDiag(r) == "start" \in DOMAIN r
Ok(r) == IF IsDiag(r) THEN DiagOk(r) ELSE EnumOk(r)

Init == i = 0
Next == i < Len(Rec) /\ i' = i + 1
Spec == Init /\ [][Next]_vars

Checked == i > 0 => (Ok(Rec[i]) \/ PrintT("BAD " \o ToJson([idx |-> i])))

Complete ==
    /\ TLCGet("distinct") = Len(Rec) + 1
    /\ ExpectN > 0 =>
         LET E == {k \in 1..Len(Rec) : ~IsDiag(Rec[k])} IN
         /\ Cardinality(E) = ExpectN
         /\ Cardinality({Rec[k].b : k \in E}) = ExpectN
================================================================================
