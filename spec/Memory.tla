---------------------------------- MODULE Memory ----------------------------------
(***************************************************************************)
(* C02: writing one value never changes any other value.                    *)
(*                                                                         *)
(* The memory is a sequence of bytes holding one object                     *)
(*     S = struct { x: X, g: [8]u8 }                                        *)
(* X is T, or [2]T for the element kinds; g is a guard that lies directly   *)
(* behind x (u8 has alignment 1, so there is no padding in between - the    *)
(* place where an over-wide store lands).  One behaviour initialises S,     *)
(* then performs ONE store of a new value into x (or into one element of    *)
(* x), in one of the ways the language offers:                              *)
(*   copy  s.x = v          lit   s.x = <literal / conversion>              *)
(*   conv  s.x = p  (p a payload or variant variable: payload->optional,    *)
(*                   payload->error union, variant->enum)                   *)
(*   arg   s.x = id(v)  (v passed and returned by value)                    *)
(*   ptr   p := ^mut s.x; p^ = v        cast  s.x = T.(w) (struct cast)     *)
(*   castw s.x = T.(w), w of a struct / array type whose members are wider *)
(*         and in another order (member-wise converting cast)              *)
(*   castr s.x = T.(w), w of a struct type with the SAME member names and  *)
(*         types in the reverse order (members are matched by name)        *)
(*   elem0 / elem1  s.x[k] = v          local x is a local between guards   *)
(*   litrev  S is BUILT by a struct literal whose members are written in    *)
(*           reverse order, x copied from a variable                        *)
(*   cadd / caddw  s.x += v for an integer x, v of the same type / a u64    *)
(* The property is the frame condition: every byte outside the stored-to    *)
(* object keeps its value; and value semantics: afterwards the object holds *)
(* the stored value (its defined bytes; padding is unconstrained).          *)
(*                                                                         *)
(* Sizes, offsets and tag positions are Layout.tla's (validated against     *)
(* the code generator by C17).  Images use -1 for "unconstrained".          *)
(***************************************************************************)
EXTENDS Ty, Integers, TLC, Json

L == INSTANCE Layout WITH i <- 0
MSize(t) == L!MSize(t)
MStride(t) == L!MStride(t)
MOffsets(t) == L!MOffsets(t)
MTag(t) == L!MTag(t)
Named(ms) == L!Named(ms)
EnumOf(u, ms) == L!EnumOf(u, ms)

CONSTANT ByteSizes       \* sizes N of the all-bytes structs B_N in the universe

VARIABLES c, pc, mem
mvars == <<c, pc, mem>>

(* ---------------------------------------------------------------- universe *)
ByteStruct(n) == AnonStruct([k \in 1..n |-> <<"f", U8>>])
P9 == AnonStruct(Named(<<I64, U8>>))      P5 == AnonStruct(Named(<<I32, U8>>))
P5b == AnonStruct(Named(<<U8, I32>>))     P3 == AnonStruct(Named(<<U16, U8>>))
P17 == AnonStruct(Named(<<I64, I64, U8>>)) P12 == AnonStruct(Named(<<F64, F32>>))
PN == AnonStruct(Named(<<P9, U8>>))
E5 == EnumOf(1, <<I32, Void>>)            E9 == EnumOf(2, <<U8, I64>>)
E10 == EnumOf(3, <<P9, U16, Void>>)       EV == EnumOf(4, <<Void, Void>>)
(* destinations of member-wise converting casts: the source has the same member names in another
   order and wider member types (u8 <- u64, i16 <- i64, ?u8 <- ?u64, ?i32 <- ?i64) *)
Q1 == AnonStruct(Named(<<Opt(U8), U8, I16>>))    Q2 == AnonStruct(Named(<<U8, Opt(U8)>>))
Q3 == AnonStruct(Named(<<Opt(I32), Opt(U8), U8>>))
CastWTys == {Q1, Q2, Q3, Arr(3, Opt(U8)), Arr(2, Opt(I32))}
MTys == <<U8, U16, I32, I64, F32, F64, Bool, Q1, Q2, Q3, Arr(3, Opt(U8)), Arr(2, Opt(I32)),
          P9, P5, P5b, P3, P17, P12, PN,
          Arr(3, U8), Arr(3, U16), Arr(2, P5),
          E5, E9, E10, EV,
          Opt(U8), Opt(I32), Opt(I64), Opt(P9), Opt(Arr(3, U8)),
          EU(ByteStruct(3), I64), EU(U8, P5)>>
AllTys == Range(MTys) \cup {ByteStruct(n) : n \in ByteSizes}

(* ------------------------------------------------------------------ values *)
(* a value tree (what the program text spells) and its byte image *)
RECURSIVE Tree(_, _), Img(_, _)
IntByte(sd, k) == ((sd * 7 + k * 13) % 120) + 1
Discr(t, v) == t.vs[v].d
Tree(t, sd) ==
    CASE t.k = "int" -> [k |-> "int", bs |-> [j \in 1..MSize(t) |-> IntByte(sd, j)]]
      [] t.k = "bool" -> [k |-> "bool", b |-> (sd % 2 = 0)]
      [] t.k = "float" -> [k |-> "float", neg |-> (sd % 2 = 1)]           \* 1.5 or -2.25
      [] t.k \in {"struct", "anonstruct"} -> [k |-> "struct", fs |-> [i \in 1..Len(t.ms) |-> Tree(t.ms[i][2], sd + i)]]
      [] t.k = "arr" -> [k |-> "arr", es |-> [i \in 1..t.n |-> Tree(t.sub, sd + 3 * i)]]
      [] t.k = "enum" -> LET v == (sd % Len(t.vs)) + 1 IN
                         [k |-> "enum", v |-> v, p |-> Tree(t.vs[v].sub, sd + 5)]
      [] t.k = "opt" -> IF sd % 2 = 0 THEN [k |-> "some", p |-> Tree(t.sub, sd + 5)] ELSE [k |-> "nil"]
      [] t.k = "eu" -> IF sd % 2 = 0 THEN [k |-> "ok", p |-> Tree(t.ok, sd + 5)] ELSE [k |-> "err", p |-> Tree(t.err, sd + 5)]
      [] t.k = "void" -> [k |-> "void"]
Undef(n) == [k \in 1..n |-> -1]
(* img placed at offset off inside a region of n bytes (rest undefined) *)
Place(img, off, n) == [k \in 1..n |-> IF k > off /\ k <= off + Len(img) THEN img[k - off] ELSE -1]
Overlay(a, b) == [k \in 1..Len(a) |-> IF b[k] # -1 THEN b[k] ELSE a[k]]
RECURSIVE OverlayAll(_, _)
OverlayAll(base, imgs) == IF imgs = <<>> THEN base ELSE OverlayAll(Overlay(base, Head(imgs)), Tail(imgs))
Img(t, sd) ==
    LET n == MSize(t) IN
    CASE t.k = "int" -> [j \in 1..n |-> IntByte(sd, j)]
      [] t.k = "bool" -> <<IF sd % 2 = 0 THEN 1 ELSE 0>>
      [] t.k = "float" -> (IF t.w = 32 THEN (IF sd % 2 = 1 THEN <<0, 0, 16, 192>> ELSE <<0, 0, 192, 63>>)
                           ELSE (IF sd % 2 = 1 THEN <<0, 0, 0, 0, 0, 0, 2, 192>> ELSE <<0, 0, 0, 0, 0, 0, 248, 63>>))
      [] t.k \in {"struct", "anonstruct"} ->
            OverlayAll(Undef(n), [i \in 1..Len(t.ms) |-> Place(Img(t.ms[i][2], sd + i), MOffsets(t)[i], n)])
      [] t.k = "arr" -> OverlayAll(Undef(n), [i \in 1..t.n |-> Place(Img(t.sub, sd + 3 * i), (i - 1) * MStride(t.sub), n)])
      [] t.k = "enum" -> LET v == (sd % Len(t.vs)) + 1 IN
            Overlay(Place(Img(t.vs[v].sub, sd + 5), 0, n), Place(<<Discr(t, v)>>, MTag(t), n))
      [] t.k = "opt" -> IF sd % 2 = 0 THEN Overlay(Place(Img(t.sub, sd + 5), 0, n), Place(<<1>>, MTag(t), n))
                        ELSE Place(<<0>>, MTag(t), n)
      [] t.k = "eu" -> IF sd % 2 = 0 THEN Overlay(Place(Img(t.ok, sd + 5), 0, n), Place(<<1>>, MTag(t), n))
                       ELSE Overlay(Place(Img(t.err, sd + 5), 0, n), Place(<<0>>, MTag(t), n))
      [] t.k = "void" -> <<>>

(* ------------------------------------------------------------------- cases *)
Kinds == {"copy", "lit", "conv", "arg", "ptr", "cast", "castw", "castr", "elem0", "elem1", "local", "litrev", "cadd", "caddw"}
Applies(t, kd) ==
    CASE kd = "conv" -> t.k \in {"enum", "opt", "eu"}
      [] kd = "cast" -> t.k \in {"struct", "anonstruct"}
      [] kd = "castw" -> t \in CastWTys
      [] kd = "castr" -> t.k \in {"struct", "anonstruct"} /\ Len(t.ms) >= 2
      [] kd = "cadd" -> t.k = "int"
      [] kd = "caddw" -> t.k = "int" /\ t.w < 64     \* the right-hand side is a u64 (if the checker accepts that)
      [] OTHER -> TRUE
Guard == <<201, 202, 203, 204, 205, 206, 207, 208>>
Cases == {[t |-> t, kind |-> kd, a |-> sa, b |-> sb] :
            t \in AllTys, kd \in Kinds, sa \in {1}, sb \in {2, 3, 4, 5}} 
IsElem(x) == x.kind \in {"elem0", "elem1"}
XTy(x) == IF IsElem(x) THEN Arr(2, x.t) ELSE x.t
XSize(x) == MSize(XTy(x))
(* initial image of x: for the element kinds both elements start as the value a *)
InitX(x) == IF IsElem(x) THEN Overlay(Place(Img(x.t, x.a), 0, XSize(x)), Place(Img(x.t, x.a), MStride(x.t), XSize(x)))
            ELSE Img(x.t, x.a)
(* where the store goes: offset and extent inside S *)
Target(x) == IF x.kind = "elem1" THEN [off |-> MStride(x.t), len |-> MSize(x.t)] ELSE [off |-> 0, len |-> MSize(x.t)]

MInit == /\ c \in {x \in Cases : Applies(x.t, x.kind)}
        /\ pc = "init"
        /\ mem = Undef(XSize(c) + 8)
Build == /\ pc = "init" /\ pc' = "built" /\ UNCHANGED c
         /\ mem' = Overlay(Place(InitX(c), 0, XSize(c) + 8), Place(Guard, XSize(c), XSize(c) + 8))
(* the store: inside the target the new value's bytes (undefined where the new value has
   padding or an inactive payload), every other byte as before *)
(* the value the store puts into the target: the new value, or for += the byte-wise sum (the
   generated bytes are <= 120, so no byte carries into the next) *)
NewImg(x) == IF x.kind \in {"cadd", "caddw"}
             THEN [j \in 1..MSize(x.t) |-> IntByte(x.a, j) + IntByte(x.b, j)]
             ELSE Img(x.t, x.b)
Store == /\ pc = "built" /\ pc' = "stored" /\ UNCHANGED c
         /\ LET new == Place(NewImg(c), Target(c).off, XSize(c) + 8) IN
            mem' = [k \in 1..Len(mem) |->
                      IF k > Target(c).off /\ k <= Target(c).off + Target(c).len
                      THEN new[k]      \* inside the target: the new value; its padding is unconstrained (-1)
                      ELSE mem[k]]
MNext == Build \/ Store
MSpec == MInit /\ [][MNext]_mvars

(* the frame condition, as an action property: a store changes no byte outside its target *)
Frame == [][pc = "built" =>
             \A k \in 1..Len(mem) : (k <= Target(c).off \/ k > Target(c).off + Target(c).len) => mem'[k] = mem[k]]_mvars
GuardsIntact == pc \in {"built", "stored"} => SubSeq(mem, XSize(c) + 1, XSize(c) + 8) = Guard
Emitted == pc = "stored" =>
    PrintT("CASE " \o ToJson([t |-> c.t, kind |-> c.kind, size |-> XSize(c), stride |-> MStride(c.t),
                              ta |-> Tree(c.t, c.a), tb |-> Tree(c.t, c.b), seed_b |-> c.b, after |-> mem]))
================================================================================
