SPECIFICATION Spec
CONSTANTS
  MaxEnum = 3
  MaxArms = 4
INVARIANTS ExactlyOne Emitted
CHECK_DEADLOCK FALSE
