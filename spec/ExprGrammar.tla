------------------------------ MODULE ExprGrammar ------------------------------
(***************************************************************************)
(* C24: expressions parse by the documented precedence and associativity.  *)
(*                                                                         *)
(* Abstract expression trees (the shape the harness reads back from the    *)
(* real parser's AST):                                                     *)
(*   var / int atoms; bin(op, l, r) with the 18 binary operators in five   *)
(*   levels  || < && < comparisons < + - | ~ < * / % & << >>  (all left-   *)
(*   associative); un(op, e) for - + ! ~; ref(mut, e) for ^ and ^mut;      *)
(*   postfix call / index / field / try / cast / deref.                    *)
(* Show(t) writes a tree with the minimal parentheses the table implies   *)
(* (PrintFull: with redundant parentheses everywhere).  Parentheses are    *)
(* transparent: the expected parse of Show(t) is t itself.                *)
(* The property does not order prefix against postfix operators, so a      *)
(* prefix operator applied to a postfix expression (and vice versa) is     *)
(* always printed with parentheses.                                        *)
(***************************************************************************)
EXTENDS Naturals, Sequences, FiniteSets, TLC, Json

CONSTANTS Depth3, Emit

VARIABLE n
vars == <<n>>

V(x) == [k |-> "var", name |-> x]
I(x) == [k |-> "int", text |-> x]
Bin(op, l, r) == [k |-> "bin", op |-> op, l |-> l, r |-> r]
Un(op, e) == [k |-> "un", op |-> op, e |-> e]
Ref(m, e) == [k |-> "ref", mut |-> m, e |-> e]
Deref(e) == [k |-> "deref", e |-> e]
Try(e) == [k |-> "try", e |-> e]
Cast(ty, e) == [k |-> "cast", ty |-> ty, e |-> e]
Call(f, args) == [k |-> "call", f |-> f, args |-> args]
Index(e, i) == [k |-> "index", e |-> e, i |-> i]
Field(e, name) == [k |-> "field", e |-> e, name |-> name]

Levels == <<{"||"}, {"&&"}, {"<", "<=", ">", ">=", "==", "!="}, {"+", "-", "|", "~"},
            {"*", "/", "%", "&", "<<", ">>"}>>
AllBin == UNION {Levels[l] : l \in 1..5}
RepBin == {"||", "&&", "<", "+", "*"}
BinLevel(op) == CHOOSE l \in 1..5 : op \in Levels[l]
UnOps == {"-", "+", "!", "~"}

(* precedence level of a tree: binary 1..5, prefix 6, postfix 7, atom 8 *)
Lvl(t) == CASE t.k = "bin" -> BinLevel(t.op)
            [] t.k \in {"un", "ref"} -> 6
            [] t.k \in {"deref", "try", "cast", "call", "index", "field"} -> 7
            [] OTHER -> 8

RECURSIVE Show(_, _)
Paren(s) == "(" \o s \o ")"
At(t, min, full) == IF full \/ Lvl(t) < min THEN Paren(Show(t, full)) ELSE Show(t, full)
(* operand of a prefix operator: atoms and other prefix expressions need no parentheses *)
PrefixOperand(t, full) == IF full \/ Lvl(t) \notin {6, 8} THEN Paren(Show(t, full)) ELSE Show(t, full)
(* base of a postfix operator: atoms and other postfix expressions need no parentheses *)
PostfixBase(t, full) == IF full \/ Lvl(t) < 7 THEN Paren(Show(t, full)) ELSE Show(t, full)
RECURSIVE ShowArgs(_, _)
ShowArgs(args, full) == IF args = <<>> THEN ""
                         ELSE IF Len(args) = 1 THEN Show(args[1], full)
                         ELSE Show(args[1], full) \o ", " \o ShowArgs(Tail(args), full)
Show(t, full) ==
    CASE t.k = "var" -> t.name
      [] t.k = "int" -> t.text
      [] t.k = "bin" -> At(t.l, BinLevel(t.op), full) \o " " \o t.op \o " " \o At(t.r, BinLevel(t.op) + 1, full)
      [] t.k = "un" -> t.op \o PrefixOperand(t.e, full)
      [] t.k = "ref" -> (IF t.mut THEN "^mut " ELSE "^") \o PrefixOperand(t.e, full)
      [] t.k = "deref" -> PostfixBase(t.e, full) \o "^"
      [] t.k = "try" -> PostfixBase(t.e, full) \o ".try"
      [] t.k = "cast" -> PostfixBase(t.ty, full) \o ".(" \o Show(t.e, full) \o ")"
      [] t.k = "call" -> PostfixBase(t.f, full) \o "(" \o ShowArgs(t.args, full) \o ")"
      [] t.k = "index" -> PostfixBase(t.e, full) \o "[" \o Show(t.i, full) \o "]"
      [] t.k = "field" -> PostfixBase(t.e, full) \o "." \o t.name

--------------------------------------------------------------------------------
(* families of trees *)
A == V("a")  B == V("b")  Cc == V("c")  One == I("1")
Atoms == {A, B, One}

Postfixes(t) == {Deref(t), Try(t), Cast(t, B), Call(t, <<>>), Call(t, <<B>>), Call(t, <<B, One>>),
                 Index(t, B), Field(t, "x")}
Prefixes(t) == {Un(op, t) : op \in UnOps} \cup {Ref(FALSE, t), Ref(TRUE, t)}

(* every cell of the precedence relation: all operator pairs in both shapes *)
Pairs == {Bin(o2, Bin(o1, A, B), Cc) : o1, o2 \in AllBin} \cup {Bin(o1, A, Bin(o2, B, Cc)) : o1, o2 \in AllBin}

D1 == Atoms \cup UNION {Postfixes(t) : t \in Atoms} \cup UNION {Prefixes(t) : t \in Atoms}
         \cup {Bin(op, x, y) : op \in AllBin, x, y \in {A, One}}
(* operands used to build the deeper trees: one of each shape *)
Shapes == {A, Un("-", A), Ref(FALSE, A), Deref(A), Field(A, "x"), Call(A, <<B>>), Index(A, One),
           Cast(A, B), Try(A), Bin("+", A, B), Bin("*", A, B), Bin("<", A, B), Bin("&&", A, B), Bin("||", A, B)}
D2 == {Bin(op, x, y) : op \in RepBin, x, y \in Shapes}
        \cup UNION {Postfixes(t) : t \in Shapes} \cup UNION {Prefixes(t) : t \in Shapes}
        \cup {Call(A, <<x, y>>) : x, y \in Shapes} \cup {Index(x, y) : x, y \in Shapes}
        \cup {Cast(x, y) : x \in {A, Field(A, "x")}, y \in Shapes}
(* depth 3: binary trees over three representative operators with all shapes of nesting *)
Rep3 == {"||", "<", "+", "*"}
D3 == {Bin(o3, Bin(o1, A, B), Bin(o2, Cc, One)) : o1, o2, o3 \in Rep3}
        \cup {Bin(o3, Bin(o2, Bin(o1, A, B), Cc), One) : o1, o2, o3 \in Rep3}
        \cup {Bin(o1, A, Bin(o2, B, Bin(o3, Cc, One))) : o1, o2, o3 \in Rep3}
        \cup {Bin(o2, Un("-", Bin(o1, A, B)), Field(Bin(o3, Cc, One), "x")) : o1, o2, o3 \in Rep3}
        \cup {Un("!", Bin(o1, Deref(A), Bin(o2, Un("-", B), Call(Cc, <<Bin(o3, A, One)>>)))) : o1, o2, o3 \in Rep3}

Family == <<D1, Pairs, D2, IF Depth3 THEN D3 ELSE {}>>

--------------------------------------------------------------------------------
(* one state per family; the invariants are evaluated on each *)
Init == n = 0
Next == n < Len(Family) /\ n' = n + 1
Spec == Init /\ [][Next]_vars

(* the round trip would be vacuous if two trees printed alike *)
PrintInjective ==
    n > 0 => Cardinality({Show(t, FALSE) : t \in Family[n]}) = Cardinality(Family[n])

Emitted ==
    (Emit /\ n > 0) =>
        \A t \in Family[n] :
            PrintT("REPLAY " \o ToJson([fam |-> n, min |-> Show(t, FALSE), full |-> Show(t, TRUE), tree |-> t]))
================================================================================
