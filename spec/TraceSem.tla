--------------------------------- MODULE TraceSem ---------------------------------
(***************************************************************************)
(* C01 (and C16 / C20, which reuse it), implementation -> specification:    *)
(* every record is one program, as abstract syntax, with what the real      *)
(* compiler and the real executable did:                                    *)
(*   [p |-> program, acc |-> accepted, out |-> printed byte strings,        *)
(*    status |-> exit status, end |-> "exit" | fault kind]                  *)
(* It is accepted iff the compiler accepted the program and the executable  *)
(* printed exactly CapySem!Run(p).out, ended the way it prescribes and      *)
(* exited with its status.                                                  *)
(***************************************************************************)
EXTENDS CapySem, Json, IOUtils, FiniteSets

Rec == ndJsonDeserialize(IOEnv.TRACE)
Fuel == 400

VARIABLE i
Init == i = 0
Next == i < Len(Rec) /\ i' = i + 1
Spec == Init /\ [][Next]_i

Ok(r) == LET want == Run(r.p, Fuel) IN
         want.end = "nofuel"                         \* the specification gave up: not judged
         \/ (r.acc /\ r.out = want.out /\ r.status = want.status /\ r.end = want.end)
Checked == i > 0 => (Ok(Rec[i]) \/ PrintT("BAD " \o ToJson([idx |-> i, want |-> Run(Rec[i].p, Fuel)])))
Complete == TLCGet("distinct") = Len(Rec) + 1
================================================================================
