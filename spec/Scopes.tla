--------------------------------- MODULE Scopes --------------------------------
(***************************************************************************)
(* C05 (P): names resolve to the innermost visible binding; scopes end     *)
(* where they end.                                                         *)
(*                                                                         *)
(* A program is a well-nested event sequence inside the body of            *)
(*       a :: 90;   f :: (b: i32) { ...events... }                         *)
(* over the identifier pool {a, b, u8}:  `a` is also a global, `b` is also *)
(* the parameter of f, `u8` is also a built-in type name.                  *)
(*   EB / XB            { ... }                                            *)
(*   Def(n)             n := 1;                                            *)
(*   Ref(n)             n;                                                 *)
(*   SwO(n) Sep SwC     switch n in o { i32 => { .. }, _ => { .. } }       *)
(*   LamO(p) LamC       l := (p: i32) { .. };     (p = "" : no parameter)  *)
(*   CtO CtC            comptime { .. };                                   *)
(* The state graph of this module enumerates the programs; Resolve gives,  *)
(* for every Ref, the binding the language prescribes.                     *)
(***************************************************************************)
EXTENDS Naturals, Sequences, FiniteSets, TLC, Json

CONSTANTS MaxLen, MaxDepth, MaxRefs, Emit

VARIABLES evs, open
vars == <<evs, open>>

Names == {"a", "b", "u8"}
Ev(t, n) == [t |-> t, n |-> n]

--------------------------------------------------------------------------------
(* Static semantics.  A context is one function-like body: the enclosing f, a lambda, or a
   comptime block.  ctx = <<[param |-> name or "", ppos |-> position of its header (0 = f),
   frames |-> <<frame, ...>>]>> innermost last; a frame maps names to bindings.            *)

NoBinding == [k |-> "none"]
EmptyFrame == [n \in Names |-> NoBinding]

RECURSIVE LookupFrames(_, _, _)
LookupFrames(frames, k, n) ==
    IF k = 0 THEN NoBinding
    ELSE IF frames[k][n].k # "none" THEN frames[k][n]
    ELSE LookupFrames(frames, k - 1, n)

(* the documented order: block-local / switch argument, parameter of the enclosing lambda,
   global of the file, built-in type name, otherwise undefined *)
ResolveIn(ctxs, n) ==
    LET c == ctxs[Len(ctxs)]
        loc == LookupFrames(c.frames, Len(c.frames), n)
    IN IF loc.k # "none" THEN loc
       ELSE IF c.param = n THEN [k |-> "param", pos |-> c.ppos]
       ELSE IF n = "a" THEN [k |-> "global"]
       ELSE IF n = "u8" THEN [k |-> "prim"]
       ELSE [k |-> "undef"]

PushFrame(ctxs, fr) == [ctxs EXCEPT ![Len(ctxs)].frames = Append(@, fr)]
PopFrame(ctxs) == [ctxs EXCEPT ![Len(ctxs)].frames = SubSeq(@, 1, Len(@) - 1)]
Bind(ctxs, n, b) ==
    LET c == ctxs[Len(ctxs)] top == Len(c.frames) IN
    [ctxs EXCEPT ![Len(ctxs)].frames[top][n] = b]

(* f's body is a block: one frame to start with *)
InitCtx == <<[param |-> "b", ppos |-> 0, frames |-> <<EmptyFrame>>]>>

(* fold over the events; returns the sequence of resolutions (one per Ref, in order) *)
RECURSIVE Walk(_, _, _, _)
Walk(es, k, ctxs, acc) ==
    IF k > Len(es) THEN acc
    ELSE LET e == es[k] IN
    CASE e.t = "EB"   -> Walk(es, k + 1, PushFrame(ctxs, EmptyFrame), acc)
      [] e.t = "XB"   -> Walk(es, k + 1, PopFrame(ctxs), acc)
      [] e.t = "Def"  -> Walk(es, k + 1, Bind(ctxs, e.n, [k |-> "local", pos |-> k]), acc)
      [] e.t = "Ref"  -> Walk(es, k + 1, ctxs, Append(acc, [at |-> k, n |-> e.n, r |-> ResolveIn(ctxs, e.n)]))
      \* the argument is bound in the arm only: one frame for the argument, one for the arm's block
      [] e.t = "SwO"  -> Walk(es, k + 1,
                              PushFrame(PushFrame(ctxs, [EmptyFrame EXCEPT ![e.n] = [k |-> "arm", pos |-> k, dflt |-> FALSE]]), EmptyFrame),
                              acc)
      [] e.t = "Sep"  -> LET sw == e.n   \* position of the matching SwO, filled in by the enumerator
                             nm == es[sw].n
                         IN Walk(es, k + 1,
                              PushFrame(PushFrame(PopFrame(PopFrame(ctxs)), [EmptyFrame EXCEPT ![nm] = [k |-> "arm", pos |-> sw, dflt |-> TRUE]]), EmptyFrame),
                              acc)
      [] e.t = "SwC"  -> Walk(es, k + 1, PopFrame(PopFrame(ctxs)), acc)
      \* lambdas and comptime blocks start from an empty scope stack; a lambda sees its own
      \* parameter, a comptime block sees no parameter at all
      [] e.t = "LamO" -> Walk(es, k + 1, Append(ctxs, [param |-> e.n, ppos |-> k, frames |-> <<EmptyFrame>>]), acc)
      [] e.t = "CtO"  -> Walk(es, k + 1, Append(ctxs, [param |-> "", ppos |-> k, frames |-> <<EmptyFrame>>]), acc)
      [] e.t \in {"LamC", "CtC"} -> Walk(es, k + 1, SubSeq(ctxs, 1, Len(ctxs) - 1), acc)

Resolutions(es) == Walk(es, 1, InitCtx, <<>>)

--------------------------------------------------------------------------------
(* enumeration: `open` is the stack of open constructs, each <<kind, position>>;
   a switch is "sw1" in its first arm and "sw2" in its second *)

Init == evs = <<>> /\ open = <<>>

Top == open[Len(open)]
Room(n) == Len(evs) + n + Len(open) <= MaxLen
NRefs == Cardinality({k \in 1..Len(evs) : evs[k].t = "Ref"})

Push(e, kind) == /\ Len(open) < MaxDepth
                 /\ Room(2)
                 /\ evs' = Append(evs, e)
                 /\ open' = Append(open, <<kind, Len(evs) + 1>>)
Pop(e) == /\ evs' = Append(evs, e)
          /\ open' = SubSeq(open, 1, Len(open) - 1)
Plain(e) == /\ Room(1)
            /\ evs' = Append(evs, e)
            /\ UNCHANGED open

Next ==
    \/ Push(Ev("EB", ""), "blk")
    \/ (open # <<>> /\ Top[1] = "blk" /\ Pop(Ev("XB", "")))
    \/ \E n \in Names : Plain(Ev("Def", n))
    \/ \E n \in Names : NRefs < MaxRefs /\ Plain(Ev("Ref", n))
    \/ \E n \in {"a", "b"} : Room(3) /\ Push(Ev("SwO", n), "sw1")
    \/ (open # <<>> /\ Top[1] = "sw1" /\ Room(1)
          /\ evs' = Append(evs, Ev("Sep", Top[2]))
          /\ open' = [open EXCEPT ![Len(open)] = <<"sw2", Top[2]>>])
    \/ (open # <<>> /\ Top[1] = "sw2" /\ Pop(Ev("SwC", "")))
    \/ \E p \in {"", "a", "b"} : Push(Ev("LamO", p), "lam")
    \/ (open # <<>> /\ Top[1] = "lam" /\ Pop(Ev("LamC", "")))
    \/ Push(Ev("CtO", ""), "ct")
    \/ (open # <<>> /\ Top[1] = "ct" /\ Pop(Ev("CtC", "")))

Spec == Init /\ [][Next]_vars

Complete == open = <<>> /\ NRefs > 0

--------------------------------------------------------------------------------
(* properties of the static semantics itself *)

(* a binding made inside a block / arm / lambda / comptime block is never the resolution of a
   reference after the matching exit *)
RECURSIVE CloserOf(_, _, _, _)
CloserOf(es, k, depth, sepCloses) ==
    IF k > Len(es) THEN Len(es) + 1
    ELSE IF es[k].t \in {"EB", "SwO", "LamO", "CtO"} THEN CloserOf(es, k + 1, depth + 1, sepCloses)
    ELSE IF es[k].t \in {"XB", "SwC", "LamC", "CtC"} THEN
            (IF depth = 0 THEN k ELSE CloserOf(es, k + 1, depth - 1, sepCloses))
    ELSE IF es[k].t = "Sep" /\ depth = 0 /\ sepCloses THEN k   \* the first arm ends at the separator
    ELSE CloserOf(es, k + 1, depth, sepCloses)
(* position where the scope containing position k ends *)
ScopeEnd(es, k) == CloserOf(es, k + 1, 0, TRUE)
(* the arm-1 argument lives until the separator, the arm-2 argument from there to the end *)
ArmOk(es, r) ==
    IF r.r.dflt THEN /\ CloserOf(es, r.r.pos + 1, 0, TRUE) < r.at
                     /\ r.at < CloserOf(es, r.r.pos + 1, 0, FALSE)
    ELSE r.r.pos < r.at /\ r.at < CloserOf(es, r.r.pos + 1, 0, TRUE)

ScopesEnd == Complete =>
    \A i \in 1..Len(Resolutions(evs)) :
        LET r == Resolutions(evs)[i] IN
        /\ r.r.k = "local" => (r.r.pos < r.at /\ r.at < ScopeEnd(evs, r.r.pos) /\ evs[r.r.pos].n = r.n)
        /\ r.r.k = "arm" => (ArmOk(evs, r) /\ evs[r.r.pos].n = r.n)

(* innermost: no later definition of the same name in a still-open enclosing scope of the same
   context lies between the chosen definition and the reference *)
Innermost == Complete =>
    \A i \in 1..Len(Resolutions(evs)) :
        LET r == Resolutions(evs)[i] IN
        r.r.k = "local" =>
            ~\E j \in (r.r.pos + 1)..(r.at - 1) :
                /\ evs[j].t = "Def" /\ evs[j].n = r.n
                /\ ScopeEnd(evs, j) > r.at
                /\ ~\E c \in (j + 1)..(r.at - 1) : evs[c].t \in {"LamO", "CtO"} /\ ScopeEnd(evs, c) > r.at

Emitted == (Emit /\ Complete) =>
    PrintT("REPLAY " \o ToJson([evs |-> evs, res |-> Resolutions(evs)]))
================================================================================
