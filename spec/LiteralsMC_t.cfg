SPECIFICATION Spec
CONSTANTS
  Full = TRUE
INVARIANTS Emitted Sane
CHECK_DEADLOCK FALSE
