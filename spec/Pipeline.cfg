SPECIFICATION PSpec
INVARIANTS Gate TypeOK
CHECK_DEADLOCK FALSE
