------------------------------- MODULE MangleModel ------------------------------
(* design-level check of the mangling scheme (M) on the descriptor universe of Mangle.tla:
   as coded it is NOT injective (Mangle_ascoded.cfg prints the colliding path groups);
   with the three named deviations repaired it is (Mangle_fixed.cfg).                       *)
EXTENDS Mangle

VARIABLE syms
E0 == [k |-> "global", name |-> Id("x", 1), idx |-> -1, gen |-> -1, ct |-> -1, data |-> ""]

(* all collisions of the scheme as coded are between paths, whatever the entity: groups of
   paths with the same symbol for one fixed entity *)
PathCollisions(ps) ==
    {[sym |-> ps[p], n |-> Cardinality({q \in Paths : ps[q] = ps[p]})] :
        p \in {x \in Paths : \E y \in Paths : y # x /\ ps[y] = ps[x]}}

MInit == /\ i = 0
         /\ syms = [p \in Paths |-> Symbol([path |-> p, ent |-> E0])]
MSpec == MInit /\ [][FALSE]_<<i, syms>>

AllSyms == {Symbol(d) : d \in Descriptors}
Injective == Cardinality(AllSyms) = Cardinality(Descriptors)
ReportCollisions == PathCollisions(syms) = {} \/ PrintT("COLLISIONS " \o ToJson(PathCollisions(syms)))
================================================================================
