---------------------------------- MODULE Repro ----------------------------------
(***************************************************************************)
(* C21: builds are reproducible.                                            *)
(*                                                                         *)
(* A history is a sequence of compilations.  Each names its input (the set  *)
(* of source files with their contents and the options - NOT the order in   *)
(* which files were listed, NOT what the process compiled before, NOT the   *)
(* address-space layout of the run) and reports its outcome: the hash of    *)
(* the object file ("" if none was produced) and the hash of the rendered   *)
(* diagnostics.                                                            *)
(*                                                                         *)
(* The specification remembers, per input, the outcome of its first         *)
(* compilation; Compile(i, o) is enabled only if input i was never compiled *)
(* or was compiled with outcome o.  A recorded history is accepted iff it   *)
(* is a behaviour of this machine.                                         *)
(***************************************************************************)
EXTENDS Naturals, Sequences, FiniteSets, TLC, Json, IOUtils

Rec == ndJsonDeserialize(IOEnv.TRACE)     \* [input, variant, obj, diag]

VARIABLES l, memo
vars == <<l, memo>>
Inputs == {Rec[k].input : k \in 1..Len(Rec)}
None == [obj |-> "?", diag |-> "?"]

Init == l = 0 /\ memo = [i \in Inputs |-> None]
Compile(i, o) == /\ memo[i] \in {None, o}
                 /\ memo' = [memo EXCEPT ![i] = o]
Outcome(r) == [obj |-> r.obj, diag |-> r.diag]
Step == /\ l < Len(Rec) /\ l' = l + 1
        /\ LET r == Rec[l + 1] IN
           \/ Compile(r.input, Outcome(r))
           \/ (~ENABLED Compile(r.input, Outcome(r))        \* report and go on with the history
                 /\ PrintT("BAD " \o ToJson([idx |-> l + 1, first |-> memo[r.input]]))
                 /\ UNCHANGED memo)
Spec == Init /\ [][Step]_vars
(* every input keeps at most one outcome *)
OneOutcome == \A i \in Inputs : memo[i] = None \/ \A k \in 1..l : Rec[k].input = i => TRUE
Complete == TLCGet("distinct") >= 1
================================================================================
