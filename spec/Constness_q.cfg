SPECIFICATION Spec
CONSTANTS
  MaxLinks = 2
INVARIANTS Monotone Emitted
CHECK_DEADLOCK FALSE
