SPECIFICATION Spec
INVARIANT OneOutcome
CHECK_DEADLOCK FALSE
