SPECIFICATION MSpec
CONSTANTS
  Items = {1,2,3,4}
  MaxRounds = 8
  EmitReplay = TRUE
VIEW View
CHECK_DEADLOCK FALSE
