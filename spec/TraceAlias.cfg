SPECIFICATION Spec
INVARIANT Checked
POSTCONDITION Complete
CHECK_DEADLOCK FALSE
