SPECIFICATION Spec
CONSTANTS
  MaxLen = 5
INVARIANTS Frame FaultStops Emitted
CHECK_DEADLOCK FALSE
