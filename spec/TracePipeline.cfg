SPECIFICATION TSpec
INVARIANT Reported
CHECK_DEADLOCK FALSE
