SPECIFICATION Spec
CONSTANTS
  MaxSteps = 4
  Emit = TRUE
INVARIANTS Consistent Emitted
CHECK_DEADLOCK FALSE
