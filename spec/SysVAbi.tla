---------------------------------- MODULE SysVAbi ----------------------------------
(***************************************************************************)
(* C19: calls across the C boundary pass values intact (x86-64 System V).   *)
(*                                                                         *)
(* The psABI's argument classification, as a machine that adds one          *)
(* parameter at a time:  state = integer registers left (of 6: rdi rsi rdx  *)
(* rcx r8 r9), SSE registers left (of 8: xmm0-7), number of parameters.     *)
(* A parameter type has a class pattern, one class per eightbyte:           *)
(*   scalar integer / bool / char / pointer  -> <<I>>     float -> <<S>>    *)
(*   struct of size <= 16: eightbyte k is I if any integer field overlaps   *)
(*   it, else S;   size > 16 -> <<M>> (memory)                              *)
(* AddParam(t): M goes to the stack; otherwise the whole pattern goes to    *)
(* registers if enough of each kind are left, else the whole parameter      *)
(* goes to the stack (an aggregate is never split) and the registers stay   *)
(* available for later parameters.  A MEMORY-class return value uses rdi    *)
(* for the hidden result pointer.                                           *)
(*                                                                         *)
(* TLC's state graph (the history is hidden by a VIEW) yields one test per  *)
(* reachable (registers left, parameter type) combination: each transition  *)
(* is emitted with a parameter list that reaches it.  The verdict itself    *)
(* is value identity against functions compiled by the host C compiler.     *)
(***************************************************************************)
EXTENDS Ty, Integers, Sequences, FiniteSets, TLC, Json

L == INSTANCE Layout WITH i <- 0
CONSTANTS MaxParams, PoolSize
VARIABLES ir, sr, ps, ret
vars == <<ir, sr, ps, ret>>

St(ms) == AnonStruct(L!Named(ms))
(* eightbytes that mix a float with a later or earlier integer field (INTEGER class whichever
   comes first) are in the part of the pool every tier uses *)
APool == <<I32, I64, U8, F64, F32, Ptr(FALSE, I32), Bool,
          St(<<I64, I64>>), St(<<F64, F64>>), St(<<I64, F64>>), St(<<F64, I32>>),
          St(<<F32, I32>>), St(<<I32, F32>>), St(<<I64, F32, U8>>),
          St(<<I64, U8>>), St(<<F32, F32, F32>>), St(<<I64, I64, I64>>),
          St(<<U8, U8, U8>>), St(<<I32, U8>>), St(<<F32>>), St(<<F32, U8, U8>>),
          St(<<F32, F32, I64>>), St(<<Arr(12, U8)>>), St(<<Arr(17, U8)>>), St(<<F64, F64, F64>>),
          St(<<I16, U8, I32, F32>>), St(<<Arr(64, U8)>>), Opt(Ptr(FALSE, I32)), I16, U64, Char,
          St(<<F64, F32>>), St(<<U8, F64>>), St(<<I32, I32, I32, I32>>), St(<<Arr(3, F32), U8>>)>>
Types == [j \in 1..PoolSize |-> APool[j]]

(* leaf scalars of a type with their byte offsets *)
RECURSIVE Leaves(_, _)
Leaves(t, off) ==
    CASE t.k \in {"struct", "anonstruct"} ->
            UNION {Leaves(t.ms[j][2], off + L!MOffsets(t)[j]) : j \in 1..Len(t.ms)}
      [] t.k = "arr" -> UNION {Leaves(t.sub, off + (j - 1) * L!MStride(t.sub)) : j \in 1..t.n}
      [] OTHER -> {[off |-> off, size |-> L!MSize(t), fl |-> (t.k = "float")]}
IsAggregate(t) == t.k \in {"struct", "anonstruct"}
NEight(t) == (L!MSize(t) + 7) \div 8
ClassOf(t) ==
    IF ~IsAggregate(t) THEN (IF t.k = "float" THEN <<"S">> ELSE <<"I">>)
    ELSE IF L!MSize(t) > 16 THEN <<"M">>
    ELSE [e \in 1..NEight(t) |->
            IF \E lf \in Leaves(t, 0) : ~lf.fl /\ lf.off < 8 * e /\ lf.off + lf.size > 8 * (e - 1)
            THEN "I" ELSE "S"]
Count(p, c) == Cardinality({e \in 1..Len(p) : p[e] = c})
InRegs(t, i, s) == LET p == ClassOf(t) IN p # <<"M">> /\ Count(p, "I") <= i /\ Count(p, "S") <= s

Init == /\ ret \in {0} \cup {j \in 1..PoolSize : ClassOf(Types[j]) = <<"M">>}     \* 0 = a scalar return
        /\ ir = (IF ret = 0 THEN 6 ELSE 5) /\ sr = 8 /\ ps = <<>>
AddParam(j) ==
    /\ Len(ps) < MaxParams
    /\ LET t == Types[j] p == ClassOf(t) IN
       IF InRegs(t, ir, sr) THEN ir' = ir - Count(p, "I") /\ sr' = sr - Count(p, "S")
       ELSE UNCHANGED <<ir, sr>>
    /\ ps' = Append(ps, j) /\ UNCHANGED ret
    \* every transition = one signature to test: the parameters so far plus this one
    /\ PrintT("CASE " \o ToJson([ps |-> Append(ps, j), ret |-> ret, ir |-> ir, sr |-> sr,
                                  inregs |-> InRegs(Types[j], ir, sr), class |-> ClassOf(Types[j])]))
Next == \E j \in 1..PoolSize : AddParam(j)
Spec == Init /\ [][Next]_vars
View == <<ir, sr, Len(ps), ret>>

RegsOk == ir \in 0..6 /\ sr \in 0..8
TypeTable == PrintT("TYPES " \o ToJson([j \in 1..PoolSize |-> [t |-> Types[j], class |-> ClassOf(Types[j]), size |-> L!MSize(Types[j])]]))
ASSUME TypeTable
================================================================================
