--------------------------------- MODULE Mangle ---------------------------------
(***************************************************************************)
(* C27: distinct compiled entities get distinct symbol names.              *)
(*                                                                         *)
(* An entity descriptor is                                                 *)
(*   [mod |-> BOOLEAN, dirs |-> <<comp, ..>>, file |-> comp,               *)
(*    ent |-> [k |-> "global" | "lambda", name/idx, gen |-> -1 | id,       *)
(*             ct |-> -1 | comptime index, data |-> "" | text]]            *)
(* where a path component is [raw, norm, len, dig]: its spelling, what     *)
(* FileName::get_components makes of it (".capy" stripped, "." -> "-"),    *)
(* the length of norm and whether norm starts with a digit.                *)
(*                                                                         *)
(* (P) the recorded symbol (codegen's own Mangle implementations, through  *)
(*     codegen::verif_api) is injective on descriptors and never equals    *)
(*     `main` or an internal `_CI..E` name.                                *)
(* (M) Symbol(d): get_components + create_mangled_for_file + add_part as   *)
(*     coded, including the `src` skip and the digit-leading rule.         *)
(***************************************************************************)
EXTENDS Integers, Sequences, FiniteSets, TLC, Json, IOUtils

Rec == ndJsonDeserialize(IOEnv.TRACE)

(* named deviations of the scheme as coded; TRUE = the repaired behaviour.  With all three
   repaired the scheme is injective on the universe (Mangle_fixed.cfg); as coded it is not
   (Mangle_ascoded.cfg lists the colliding symbols).                                          *)
CONSTANTS FixDigitRule,    \* digit-leading text: separator "_" instead of the lower-case kind letter
          FixDotToDash,    \* keep "." in path components instead of turning it into "-"
          FixSrcSkip       \* never drop the path component next to `src`

VARIABLE i
vars == <<i>>

C(raw, norm, len, dig) == [raw |-> raw, norm |-> norm, len |-> len, dig |-> dig]
DirPool == <<C("a", "a", 1, FALSE), C("1", "1", 1, TRUE), C("a1", "a1", 2, FALSE),
             C("f1", "f1", 2, FALSE), C("a.b", "a-b", 3, FALSE), C("a-b", "a-b", 3, FALSE),
             C("src", "src", 3, FALSE), C("1a", "1a", 2, TRUE)>>
FilePool == <<C("m.capy", "m", 1, FALSE), C("1.capy", "1", 1, TRUE), C("f1.capy", "f1", 2, FALSE)>>
ModPool == <<C("m", "m", 1, FALSE), C("m1", "m1", 2, FALSE)>>

Num(n) == IF n < 10 THEN C(ToString(n), ToString(n), 1, TRUE)
          ELSE IF n < 100 THEN C(ToString(n), ToString(n), 2, TRUE)
          ELSE C(ToString(n), ToString(n), 3, TRUE)
Id(s, l) == C(s, s, l, FALSE)

Gens == <<-1, 0, 1, 10, 999>>
Entities ==
    LET globals == {[k |-> "global", name |-> n, idx |-> -1, gen |-> g, ct |-> c, data |-> d] :
                      n \in {Id("x", 1), Id("f1", 2), Id("l0", 2), Id("main", 4)},
                      g \in {-1, 0, 1, 10}, c \in {-1}, d \in {""}}
        lambdas == {[k |-> "lambda", name |-> Id("", 0), idx |-> n, gen |-> g, ct |-> c, data |-> d] :
                      n \in {0, 1, 10, 11, 999}, g \in {-1, 0, 1, 10}, c \in {-1}, d \in {""}}
        \* adjacent numeric parts (lambda index, generic id, comptime index) must stay separable:
        \* (1, 10) and (11, 0) spell the same digit string
        comptimes0 == {[k |-> kk, name |-> Id("x", 1), idx |-> n, gen |-> g, ct |-> c, data |-> d] :
                      kk \in {"global", "lambda"}, n \in {1, 11}, g \in {-1, 1, 11}, c \in {0, 1, 10},
                      d \in {"", "str", "1"}}
        comptimes == {e \in comptimes0 : e.k = "lambda" \/ e.idx = 1}     \* a global has no index
    IN globals \cup lambdas \cup comptimes

DirSeqs == {<<>>} \cup {<<DirPool[a]>> : a \in 1..Len(DirPool)}
             \cup {<<DirPool[a], DirPool[b]>> : a, b \in 1..Len(DirPool)}
Paths == {[mod |-> FALSE, dirs |-> ds, file |-> FilePool[f]] : ds \in DirSeqs, f \in 1..Len(FilePool)}
          \cup {[mod |-> TRUE, dirs |-> <<ModPool[m], DirPool[7]>> \o ds, file |-> FilePool[f]] :
                  m \in 1..Len(ModPool), ds \in {<<>>, <<DirPool[1]>>, <<DirPool[4]>>}, f \in 1..Len(FilePool)}
          \cup {[mod |-> TRUE, dirs |-> <<ModPool[m]>> \o ds, file |-> FilePool[1]] :
                  m \in 1..Len(ModPool), ds \in {<<>>, <<DirPool[1]>>}}
(* all-digit path components: 12/3.capy and 1/23.capy *)
NumDirs == <<C("1", "1", 1, TRUE), C("12", "12", 2, TRUE)>>
NumFiles == <<C("3.capy", "3", 1, TRUE), C("23.capy", "23", 2, TRUE)>>
NumPaths == {[mod |-> FALSE, dirs |-> <<NumDirs[a]>>, file |-> NumFiles[f]] : a \in 1..2, f \in 1..2}
Descriptors == {[path |-> p, ent |-> e] : p \in Paths \cup NumPaths, e \in Entities}

--------------------------------------------------------------------------------
(* (M) the mangling scheme as coded *)
Rel(p) == p.dirs \o <<p.file>>
HasSrc(p) == ~FixSrcSkip /\ Len(Rel(p)) >= 2 /\ Rel(p)[2].raw = "src"
ModName(p) == IF p.mod THEN <<Rel(p)[1]>> ELSE <<>>
SubParts(p) ==
    LET afterMod == IF p.mod THEN Tail(Rel(p)) ELSE Rel(p)
    IN IF HasSrc(p) /\ afterMod # <<>> THEN Tail(afterMod) ELSE afterMod

Part(kind, c) == [kind |-> kind, c |-> c]
FinalParts(e) ==
    (IF e.k = "global" THEN <<Part("N", e.name)>> ELSE <<Part("L", Num(e.idx))>>)
    \o (IF e.gen >= 0 THEN <<Part("G", Num(e.gen))>> ELSE <<>>)
    \o (IF e.ct >= 0 THEN <<Part("Z", Num(e.ct))>> ELSE <<>>)
    \o (IF e.ct >= 0 /\ e.data # "" THEN
           <<Part("I", IF e.data = "1" THEN C("1", "1", 1, TRUE) ELSE C(e.data, e.data, 3, FALSE))>>
        ELSE <<>>)
Lower(k) == CASE k = "M" -> "m" [] k = "F" -> "f" [] k = "N" -> "n" [] k = "G" -> "g"
              [] k = "L" -> "l" [] k = "Z" -> "z" [] k = "I" -> "i"
Text(c) == IF FixDotToDash /\ c.raw # c.norm /\ c.raw \notin {"m.capy", "1.capy", "f1.capy", "3.capy", "23.capy"} THEN c.raw ELSE c.norm
AddPart(pt) == IF pt.c.dig
               THEN (IF FixDigitRule THEN ToString(pt.c.len) \o "_" \o Text(pt.c)
                     ELSE ToString(pt.c.len + 1) \o Lower(pt.kind) \o Text(pt.c))
               ELSE ToString(pt.c.len) \o Text(pt.c)
RECURSIVE CatKinds(_), CatParts(_)
CatKinds(seq) == IF seq = <<>> THEN "" ELSE Head(seq).kind \o CatKinds(Tail(seq))
CatParts(seq) == IF seq = <<>> THEN "" ELSE AddPart(Head(seq)) \o CatParts(Tail(seq))
Symbol(d) ==
    LET parts == [k \in 1..Len(ModName(d.path)) |-> Part("M", ModName(d.path)[k])]
                 \o [k \in 1..Len(SubParts(d.path)) |-> Part("F", SubParts(d.path)[k])]
                 \o FinalParts(d.ent)
    IN CatKinds(parts) \o CatParts(parts) \o "E"

--------------------------------------------------------------------------------
(* (P) on the recorded symbols *)
NotReserved(r) == r.sym # "main"     \* internal names start with "_CI", user symbols with a part letter

Init == i = 0
Next == i < Len(Rec) /\ i' = i + 1
Spec == Init /\ [][Next]_vars

Collides(a, b) == a.sym = b.sym /\ a.d # b.d
Checked ==
    i > 0 =>
      LET r == Rec[i] IN
      /\ (r.panic = "" \/ PrintT("BAD " \o ToJson([idx |-> i, other |-> 0, why |-> "panic"])))
      /\ (r.panic # "" \/ (NotReserved(r) /\ r.starts_internal = FALSE)
            \/ PrintT("BAD " \o ToJson([idx |-> i, other |-> 0, why |-> "reserved name"])))
      \* injectivity: no earlier record has the same symbol (records are sorted by symbol by the
      \* harness, so a collision is adjacent; Complete checks the global count as well)
      \* a collision the scheme-as-coded model predicts is one of the recorded known findings;
      \* any other collision is new
      /\ (i = 1 \/ r.panic # "" \/ ~Collides(Rec[i - 1], r)
            \/ (Symbol(Rec[i - 1].d) = Symbol(r.d)
                   /\ PrintT("KNOWN " \o ToJson([idx |-> i, other |-> i - 1])))
            \/ PrintT("BAD " \o ToJson([idx |-> i, other |-> i - 1, why |-> "same symbol for two entities"])))
      /\ (r.panic # "" \/ r.d \notin Descriptors \/ r.sym = Symbol(r.d) \/ PrintT("DRIFT " \o ToJson([idx |-> i, model |-> Symbol(r.d)])))

Distinct == Cardinality({Rec[k].sym : k \in 1..Len(Rec)})
NAdjacentDup == Cardinality({k \in 2..Len(Rec) : Rec[k].sym = Rec[k - 1].sym})
Complete ==
    /\ TLCGet("distinct") = Len(Rec) + 1
    /\ Cardinality({Rec[k].d : k \in 1..Len(Rec)}) = Len(Rec)          \* distinct descriptors
    /\ {Rec[k].d : k \in 1..Len(Rec)} = Descriptors                    \* the whole universe
    /\ Distinct + NAdjacentDup = Len(Rec)                              \* every collision was adjacent
================================================================================
