SPECIFICATION Spec
CONSTANTS
  MaxSteps = 3
  Emit = TRUE
INVARIANTS Consistent Emitted
CHECK_DEADLOCK FALSE
