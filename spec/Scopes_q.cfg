SPECIFICATION Spec
CONSTANTS
  MaxLen = 5
  MaxDepth = 3
  MaxRefs = 2
  Emit = TRUE
INVARIANTS ScopesEnd Innermost Emitted
CHECK_DEADLOCK FALSE
