-------------------------------- MODULE LiteralsMC --------------------------------
(***************************************************************************)
(* Enumerates the domain of C09 (TLC's state graph: family -> case) and     *)
(* prints one CASE line per literal use; replayed into the real compiler.   *)
(***************************************************************************)
EXTENDS Literals, Json, FiniteSets

CONSTANT Full
VARIABLE c

IntTys == {[w |-> w, s |-> s, p |-> FALSE] : w \in {1, 2, 4, 8, 16}, s \in BOOLEAN}
          \cup {[w |-> 8, s |-> s, p |-> TRUE] : s \in BOOLEAN}       \* isize / usize
V(x) == Resize(x, W, FALSE)
Near(t) == LET m == MaxOf(t) IN {Sub(m, One(W)), m, Add(m, One(W))}
Values == {v \in UNION {Near(t) : t \in IntTys} : InRange(v)}
          \cup {Zero(W), One(W), FromNat(9, W), FromNat(10, W), FromNat(1000, W), FromNat(255000, W),
                Pow10(9), Mul(FromNat(3, W), Pow10(9)), Pow10(18), Pow10(19),
                Pow2(31, W), Pow2(32, W), Pow2(63, W), Sub(Pow2(64, W), One(W)),
                Mul(FromNat(12, W), Pow10(6))}

(* spellings of a value *)
RECURSIVE DecDigits(_)
DecDigits(v) == IF IsZero(v) THEN <<>> ELSE LET qr == DivSmall(v, 10) IN DecDigits(qr[1]) \o <<qr[2]>>
Dec(v) == IF IsZero(v) THEN <<0>> ELSE DecDigits(v)
RECURSIVE BaseDigits(_, _)
BaseDigits(v, b) == IF IsZero(v) THEN <<>> ELSE LET qr == DivSmall(v, b) IN BaseDigits(qr[1], b) \o <<qr[2]>>
InBase(v, b) == IF IsZero(v) THEN <<0>> ELSE BaseDigits(v, b)
(* a separator before every group of three digits counted from the right *)
Grouped(ds) == LET n == Len(ds) IN
    [k \in 1..(n + ((n - 1) \div 3)) |->
        LET fromRight == (n + ((n - 1) \div 3)) - k      \* 0-based position from the right
        IN IF fromRight % 4 = 3 THEN 16 ELSE ds[n - (fromRight - (fromRight \div 4))]]
RECURSIVE TrailingZeros(_)
TrailingZeros(ds) == IF Len(ds) <= 1 \/ ds[Len(ds)] # 0 THEN 0 ELSE 1 + TrailingZeros(SubSeq(ds, 1, Len(ds) - 1))
Spellings(v) ==
    LET d == Dec(v)
        z == TrailingZeros(d)
    IN {[base |-> 10, ds |-> d, ex |-> <<>>],
        [base |-> 10, ds |-> Grouped(d), ex |-> <<>>],
        [base |-> 16, ds |-> InBase(v, 16), ex |-> <<>>],
        [base |-> 2, ds |-> InBase(v, 2), ex |-> <<>>],
        [base |-> 10, ds |-> d, ex |-> <<0>>]}
       \cup (IF z > 0 THEN {[base |-> 10, ds |-> SubSeq(d, 1, Len(d) - z), ex |-> Dec(FromNat(z, W))],
                            [base |-> 10, ds |-> SubSeq(d, 1, Len(d) - 1) \o <<16>>, ex |-> <<0, 1>>]}
             ELSE {})

Sites(t) == IF t.w = 16 THEN {"ann", "arith"} ELSE {"ann", "arith", "arg"}
NoTy == [w |-> 0, s |-> FALSE, p |-> FALSE]
IntCasesOf(v) ==
    {[k |-> "int", sp |-> sp, site |-> site, t |-> t] : sp \in Spellings(v), t \in IntTys, site \in {"ann"}}
    \cup {[k |-> "int", sp |-> sp, site |-> "arith", t |-> t] : sp \in Spellings(v), t \in IntTys}
    \cup {[k |-> "int", sp |-> sp, site |-> "arg", t |-> t] : sp \in Spellings(v), t \in {u \in IntTys : u.w # 16}}
    \cup {[k |-> "int", sp |-> sp, site |-> site, t |-> NoTy] : sp \in Spellings(v), site \in {"local", "global"}}
    \* further typed positions, with the plain decimal and the hexadecimal spelling
    \cup {[k |-> "int", sp |-> sp, site |-> site, t |-> t] :
              sp \in {[base |-> 10, ds |-> Dec(v), ex |-> <<>>], [base |-> 16, ds |-> InBase(v, 16), ex |-> <<>>]},
              t \in IntTys, site \in {"annc", "gann", "ret", "field", "elem", "asg"}}

Plain == (32..126) \ {39, 92, 34}
CharCases == {[k |-> "char", ps |-> <<[esc |-> FALSE, ch |-> x]>>] : x \in Plain \cup {34}}
             \cup {[k |-> "char", ps |-> <<[esc |-> TRUE, ch |-> x]>>] : x \in 33..126}
Pool == {[esc |-> FALSE, ch |-> 97], [esc |-> FALSE, ch |-> 39], [esc |-> FALSE, ch |-> 32],
         [esc |-> TRUE, ch |-> 110], [esc |-> TRUE, ch |-> 48], [esc |-> TRUE, ch |-> 92],
         [esc |-> TRUE, ch |-> 34], [esc |-> TRUE, ch |-> 113], [esc |-> TRUE, ch |-> 101]}
StrCases == {[k |-> "str", ps |-> ps] : ps \in UNION {[1..n -> Pool] : n \in 0..(IF Full THEN 3 ELSE 2)}}
            \cup {[k |-> "str", ps |-> <<[esc |-> TRUE, ch |-> x]>>] : x \in 33..126}

(* float spellings: ip . fp [e[-]ex] *)
FloatSp == {<<<<0>>, <<5>>, <<>>, FALSE>>, <<<<0>>, <<3, 7, 5>>, <<>>, FALSE>>, <<<<1>>, <<5>>, <<3>>, FALSE>>,
            <<<<2, 5>>, <<0>>, <<1>>, TRUE>>, <<<<1, 0, 2, 4>>, <<0>>, <<>>, FALSE>>,
            <<<<1, 6, 7, 7, 7, 2, 1, 7>>, <<0>>, <<>>, FALSE>>, <<<<1, 6, 7, 7, 7, 2, 1, 9>>, <<0>>, <<>>, FALSE>>,
            <<<<9, 0, 0, 7, 1, 9, 9, 2, 5, 4, 7, 4, 0, 9, 9, 3>>, <<0>>, <<>>, FALSE>>,
            <<<<1>>, <<0>>, <<2, 0>>, FALSE>>, <<<<1, 16, 0>>, <<2, 5>>, <<>>, FALSE>>,
            <<<<0>>, <<0, 0, 0, 9, 7, 6, 5, 6, 2, 5>>, <<>>, FALSE>>, <<<<6, 2, 5>>, <<0>>, <<3>>, TRUE>>,
            <<<<3>>, <<0>>, <<1, 0>>, FALSE>>, <<<<1, 2, 3, 4, 5, 6, 7, 8, 9>>, <<0>>, <<>>, FALSE>>,
            <<<<0>>, <<1>>, <<>>, FALSE>>}
FloatCases == {[k |-> "float", ip |-> f[1], fp |-> f[2], ex |-> f[3], exneg |-> f[4], fw |-> fw] :
                 f \in FloatSp, fw \in {4, 8}}

Fams == {[fam |-> "int", v |-> v] : v \in Values} \cup {[fam |-> f, v |-> <<>>] : f \in {"char", "str", "float"}}
CasesOf(F) == CASE F.fam = "int" -> IntCasesOf(F.v)
                [] F.fam = "char" -> CharCases
                [] F.fam = "str" -> StrCases
                [] F.fam = "float" -> FloatCases
IsFam(x) == "fam" \in DOMAIN x
Init == c \in Fams
Next == IsFam(c) /\ c' \in CasesOf(c)
Spec == Init /\ [][Next]_c

Emitted == IsFam(c) \/ PrintT("CASE " \o ToJson(c))
(* the enumeration is what it claims to be: every spelling denotes the value it was made from,
   every value is inside the property's range *)
Sane == /\ (IsFam(c) /\ c.fam = "int") => (InRange(c.v) /\ \A sp \in Spellings(c.v) : Value(sp) = c.v)
        /\ (~IsFam(c) /\ c.k = "float" /\ c.ip = <<0>> /\ c.fp = <<5>>) =>
               FloatValue(c) = Dyadic(2, 2, c.fw)
================================================================================
