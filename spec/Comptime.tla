--------------------------------- MODULE Comptime ---------------------------------
(***************************************************************************)
(* C04: a comptime block yields what the same code yields at run time.      *)
(*                                                                         *)
(* Values and their byte images are Memory.tla's (Tree / Img over the same  *)
(* type universe; layouts from Layout.tla, validated by C17).  A case is    *)
(*   [t |-> type, sd |-> value seed, form |-> how the block is used]        *)
(* forms: local   x := comptime { v }          global  G :: comptime { v }  *)
(*        nested  comptime { comptime { v } }  viafn   comptime { mk() }    *)
(*        effect  comptime { putchar(marker); v }                          *)
(*        twin    the same block without `comptime` (the run-time value)    *)
(* The machine has two phases.  While COMPILING, the block is evaluated     *)
(* exactly once: its side effect goes to the compiler's output and its      *)
(* value becomes a constant of the program.  While RUNNING, the program     *)
(* observes that constant: the defined bytes of Img(t, sd) - and the side   *)
(* effect is not repeated.                                                  *)
(***************************************************************************)
EXTENDS Ty, Integers, TLC, Json

CONSTANT ByteSizes
M == INSTANCE Memory WITH c <- 0, pc <- 0, mem <- 0

VARIABLES k, phase, ctOut, rtOut, const
cvars == <<k, phase, ctOut, rtOut, const>>

Forms == {"local", "global", "nested", "viafn", "effect", "twin"}
(* result types the checker must accept: everything of Memory's universe (no pointers inside) *)
(* plus three kinds of value outside that universe: a char, a string (observed through its
   pointee bytes incl. the terminator), a type (observed as "equal to the same type written at
   run time") *)
Special == [char |-> <<65>>, str |-> <<104, 105, 10, 0>>, type |-> <<1>>]
IsSpecial(t) == t.k \in DOMAIN Special
ImgOf(t, sd) == IF IsSpecial(t) THEN Special[t.k] ELSE M!Img(t, sd)
TreeOf(t, sd) == IF IsSpecial(t) THEN [k |-> t.k] ELSE M!Tree(t, sd)
SizeOf(t) == IF IsSpecial(t) THEN Len(Special[t.k]) ELSE M!MSize(t)
Cases == {[t |-> t, sd |-> sd, form |-> f] : t \in M!AllTys, sd \in {2, 3}, f \in Forms}
         \cup {[t |-> t, sd |-> 0, form |-> f] : t \in {Char, Str, TypeT}, f \in Forms}
Marker == 5

Init == k \in Cases /\ phase = "compile" /\ ctOut = <<>> /\ rtOut = <<>> /\ const = <<>>
(* compile time: evaluate the block once (a twin has no comptime block: nothing happens) *)
EvalBlock == /\ phase = "compile" /\ phase' = "run" /\ UNCHANGED <<k, rtOut>>
             /\ ctOut' = (IF k.form = "effect" THEN <<Marker>> ELSE <<>>)
             /\ const' = (IF k.form = "twin" THEN <<>> ELSE ImgOf(k.t, k.sd))
(* run time: the program prints the bytes of the value; a twin computes it now (and performs
   the side effect now, if it had one) *)
Observe == /\ phase = "run" /\ phase' = "done" /\ UNCHANGED <<k, ctOut, const>>
           /\ rtOut' = (IF k.form = "twin" THEN ImgOf(k.t, k.sd) ELSE const)
Next == EvalBlock \/ Observe
Spec == Init /\ [][Next]_cvars

(* the comptime value is what the twin computes at run time *)
SameAsRuntime == phase = "done" => rtOut = ImgOf(k.t, k.sd)
(* side effects happen while compiling, exactly once, and never again at run time *)
EffectOnce == phase \in {"run", "done"} => (Len(ctOut) = (IF k.form = "effect" THEN 1 ELSE 0))
Emitted == phase = "done" =>
    PrintT("CASE " \o ToJson([t |-> k.t, form |-> k.form, tree |-> TreeOf(k.t, k.sd), size |-> SizeOf(k.t),
                              image |-> rtOut, ct |-> ctOut]))
================================================================================
