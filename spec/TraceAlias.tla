------------------------------- MODULE TraceAlias -------------------------------
(* C14, implementation -> specification: one record per executed store
     [w |-> written location, op |-> "assign" | "compound",
      reads |-> <<[loc |-> location, val |-> value printed by the program after the store]>>]
   The locations come from Mutability.tla's state graph (the `loc` of the written chain and of the
   reading chains), the values from the compiled program.  Accepted iff every read shows the heap
   MutHeap!After prescribes: the written cell holds the new value through whatever alias it is
   read, every other cell its initial value. *)
EXTENDS MutHeap, Json, IOUtils, TLC
Rec == ndJsonDeserialize(IOEnv.TRACE)
VARIABLE i
Init == i = 0
Next == i < Len(Rec) /\ i' = i + 1
Spec == Init /\ [][Next]_i
Wrong(r) == {k \in 1..Len(r.reads) : r.reads[k].val # After(r.op, r.w, r.reads[k].loc)}
Checked == i > 0 =>
    LET r == Rec[i] IN
    (Wrong(r) = {}
     \/ PrintT("BAD " \o ToJson([idx |-> i,
                                 wrong |-> [k \in Wrong(r) |->
                                     [loc |-> r.reads[k].loc, got |-> r.reads[k].val,
                                      want |-> After(r.op, r.w, r.reads[k].loc)]]])))
Complete == TLCGet("distinct") = Len(Rec) + 1
================================================================================
