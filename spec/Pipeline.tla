-------------------------------- MODULE Pipeline --------------------------------
(***************************************************************************)
(* C06 / C07 / C21: one compilation as a stage machine.                    *)
(*                                                                         *)
(*   start -> frontend -> infer -+-> diagnostics          (errors reported)*)
(*                               +-> comptime -+-> no-entry (no / several  *)
(*                                             |            `main`)        *)
(*                                             +-> codegen = object        *)
(*                                                   +-> link -> run       *)
(* Terminal states are exactly: diagnostics (with at least one error),     *)
(* no-entry, object (when linking was not asked for), linked / ran.        *)
(* The events panic, abort/signal, timeout, verifier or cranelift error,   *)
(* link failure, a diagnostic that cannot be rendered and "exit without    *)
(* diagnostics" exist in the trace vocabulary but no action enables them:  *)
(* a trace containing one is not a behaviour of this specification (C06).  *)
(* The gate (C07) is the guard of Report / Comptime plus the invariants.   *)
(***************************************************************************)
EXTENDS Naturals, Sequences, FiniteSets

VARIABLES stage,      \* where the compilation is
          errors,     \* an error diagnostic was reported so far
          unsafe,     \* the checker flagged something unsafe to compile
          object,     \* an object file was produced
          entries     \* number of files defining the entry point (known after the front end)
pvars == <<stage, errors, unsafe, object, entries>>

Stages == {"start", "frontend", "infer", "diagnostics", "comptime", "no-entry", "object", "linked"}
Terminal == {"diagnostics", "no-entry", "object", "linked"}

PInit == stage = "start" /\ errors = FALSE /\ unsafe = FALSE /\ object = FALSE /\ entries = 0

(* the front end of every reachable file; e = it reported an error, n = entry points found *)
Frontend(e, n) == /\ stage = "start"
                  /\ stage' = "frontend" /\ errors' = e /\ entries' = n
                  /\ UNCHANGED <<unsafe, object>>
(* type inference of everything; e = it reported an error, x = it reported an error attached to
   an expression, u = something was flagged unsafe to compile.  (Errors about a whole definition -
   the entry point's signature, an extern global without a type - have no expression.) *)
Infer(e, x, u) == /\ stage = "frontend"
                  /\ (x => e)
                  /\ (x => u)            \* an error on an expression flags the code containing it
                  /\ (u => (e \/ errors)) \* and nothing is flagged without an error having been reported
                  /\ stage' = "infer" /\ errors' = (errors \/ e) /\ unsafe' = u
                  /\ UNCHANGED <<object, entries>>
(* while inferring, a comptime block whose value the checker needs is compiled and run - but only
   if no error was reported for an expression inside it (bad = the blocks that contain one) *)
EvalBlock(k, bad) == /\ stage = "frontend" /\ k \notin bad
                     /\ UNCHANGED <<stage, errors, unsafe, object, entries>>
Report == /\ stage = "infer" /\ errors
          /\ stage' = "diagnostics" /\ UNCHANGED <<errors, unsafe, object, entries>>
Comptime == /\ stage = "infer" /\ ~errors
            /\ stage' = "comptime" /\ UNCHANGED <<errors, unsafe, object, entries>>
NoEntry == /\ stage = "comptime" /\ entries # 1
           /\ stage' = "no-entry" /\ UNCHANGED <<errors, unsafe, object, entries>>
Codegen == /\ stage = "comptime" /\ entries = 1
           /\ stage' = "object" /\ object' = TRUE /\ UNCHANGED <<errors, unsafe, entries>>
Link == /\ stage = "object"
        /\ stage' = "linked" /\ UNCHANGED <<errors, unsafe, object, entries>>

PNext == \/ \E e \in BOOLEAN, n \in 0..3 : Frontend(e, n)
         \/ \E e, x, u \in BOOLEAN : Infer(e, x, u)
         \/ \E k \in 1..8, bad \in SUBSET (1..3) : EvalBlock(k, bad)
         \/ Report \/ Comptime \/ NoEntry \/ Codegen \/ Link
PSpec == PInit /\ [][PNext]_pvars

(* C07: a program is built if and only if no error was reported *)
Gate == /\ object => ~errors /\ ~unsafe
        /\ (stage \in {"object", "linked"}) => object
        /\ (stage = "diagnostics") => (errors /\ ~object)
TypeOK == stage \in Stages /\ entries \in 0..3
================================================================================
