SPECIFICATION Spec
CONSTANTS
  ByteSizes = {1, 2, 3, 5, 7, 8, 9, 12, 15, 16, 17, 24, 31, 32, 33, 48, 63, 64}
INVARIANTS SameAsRuntime EffectOnce Emitted
CHECK_DEADLOCK FALSE
