--------------------------------- MODULE Literals ---------------------------------
(***************************************************************************)
(* C09: literals denote exactly their written values or are rejected.       *)
(*                                                                         *)
(* An integer spelling is  [base |-> 10|16|2, ds |-> digit sequence,        *)
(*                          ex |-> exponent digit sequence (<<>> = none)]   *)
(* where 16 in ds stands for the separator `_` (decimal only).              *)
(* Value(sp) is the number it spells (Horner's rule on 16-byte values of    *)
(* module BV - TLC's own integers are 32-bit).                              *)
(*                                                                         *)
(* A use site is one of                                                    *)
(*   "ann"   x : T = LIT;           "arith"  t : T = 1;  r := t * LIT;      *)
(*   "arg"   f(LIT) for f :: (x: T) "local"  x := LIT;   "global" G :: LIT; *)
(*   "annc"  x : T : LIT;           "gann"   G : T : LIT;  (annotated global)*)
(*   "ret"   f :: () -> T { LIT }   "field"  S.{ f = LIT } with f: T        *)
(*   "elem"  a : [2]T = .[LIT, 1];  "asg"    x : T = 0; x = LIT;            *)
(* All but "local" / "global" use the literal AT type T: accepted iff the value fits *)
(* T, and then the stored bytes are the value's.  The last two have no      *)
(* annotation: if accepted, the value observed at run time (an integer of   *)
(* whatever type the defaulting rules chose) equals the written value.      *)
(***************************************************************************)
EXTENDS Arith

W == 16                                   \* working width in bytes
Ten == FromNat(10, W)
RECURSIVE Horner(_, _, _, _)
Horner(ds, base, k, acc) ==
    IF k > Len(ds) THEN acc
    ELSE IF ds[k] = 16 THEN Horner(ds, base, k + 1, acc)
    ELSE Horner(ds, base, k + 1, Add(Mul(acc, FromNat(base, W)), FromNat(ds[k], W)))
Digits(ds, base) == Horner(ds, base, 1, Zero(W))
RECURSIVE Pow10(_)
Pow10(e) == IF e = 0 THEN One(W) ELSE Mul(Pow10(e - 1), Ten)
(* exponents above 38 overflow the working width; every such literal is out of range anyway *)
SmallExp(ex) == LET v == Digits(ex, 10) IN IF FitsNat(v) /\ ToNat(v) <= 38 THEN ToNat(v) ELSE 39
Value(sp) == IF sp.ex = <<>> THEN Digits(sp.ds, sp.base)
             ELSE Mul(Digits(sp.ds, 10), Pow10(SmallExp(sp.ex)))
(* the property quantifies over values in [0, 2^64) *)
InRange(v) == \A k \in 9..W : v[k] = 0

(* integer types: [w |-> bytes, s |-> signed] *)
MaxOf(t) == Resize(IF t.s THEN MaxS(t.w) ELSE MaxU(t.w), W, FALSE)
Fits(t, v) == ULe(v, MaxOf(t))
Stored(t, v) == Resize(v, t.w, FALSE)

TypedSites == {"ann", "arith", "arg", "annc", "gann", "ret", "field", "elem", "asg"}
(* c = [sp, site, t];  what the language prescribes *)
Accept(c) == IF c.site \in TypedSites THEN Fits(c.t, Value(c.sp)) ELSE TRUE
(* observed: acc = the compiler accepted; o = bytes printed; for untyped sites sz / sg are the
   size and signedness of the type the value had at run time *)
HoldsInt(c, obs) ==
    LET v == Value(c.sp) IN
    IF c.site \in TypedSites
    THEN /\ obs.acc = Fits(c.t, v)
         /\ (obs.acc => obs.o = Stored(c.t, v))
    ELSE obs.acc => (Len(obs.o) = obs.sz /\ Resize(obs.o, W, obs.sg) = v)

(* ------------------------------------------------------------ char / string *)
EscapeValue == [x \in {48, 97, 98, 110, 102, 114, 116, 118, 101, 34, 39, 92} |->
    CASE x = 48 -> 0      \* \0
      [] x = 97 -> 7      \* \a
      [] x = 98 -> 8      \* \b
      [] x = 110 -> 10    \* \n
      [] x = 102 -> 12    \* \f
      [] x = 114 -> 13    \* \r
      [] x = 116 -> 9     \* \t
      [] x = 118 -> 11    \* \v
      [] x = 101 -> 27    \* \e
      [] x = 34 -> 34 [] x = 39 -> 39 [] x = 92 -> 92]
(* a component is [esc |-> BOOLEAN, ch |-> code point (ASCII)] *)
CompValid(p) == ~p.esc \/ p.ch \in DOMAIN EscapeValue
CompValue(p) == IF p.esc THEN EscapeValue[p.ch] ELSE p.ch
TextValid(ps) == \A k \in 1..Len(ps) : CompValid(ps[k])
TextValue(ps) == [k \in 1..Len(ps) |-> CompValue(ps[k])]
(* a char literal has exactly one component; a string's bytes are followed by a 0 terminator *)
HoldsText(c, obs) ==
    /\ obs.acc = TextValid(c.ps)
    /\ (obs.acc => obs.o = (IF c.k = "char" THEN TextValue(c.ps) ELSE TextValue(c.ps) \o <<0>>))

(* ------------------------------------------------------------------- floats *)
(* A decimal float spelling  ip . fp [e [-] ex]  denotes D * 10^(e - n) with D the digits of ip fp
   and n the number of fraction digits.  With e - n >= 0 this is an integer and the literal
   denotes its nearest float (ties to even).  With e - n = -k < 0 it is D / (2^k * 5^k); when 5^k
   divides D the value is the dyadic (D / 5^k) * 2^-k and the literal denotes its nearest float;
   otherwise this specification does not constrain it (no decimal-to-binary rounding here). *)
NDigits(ds) == Len(SelectSeq(ds, LAMBDA d : d # 16))
RECURSIVE DivPow5(_, _)
DivPow5(v, k) ==       \* <<v / 5^k, exact?>>
    IF k = 0 THEN <<v, TRUE>>
    ELSE LET qr == DivSmall(v, 5) IN IF qr[2] # 0 THEN <<v, FALSE>> ELSE DivPow5(qr[1], k - 1)
FloatValue(c) ==
    LET D == Digits(c.ip \o c.fp, 10)
        n == NDigits(c.fp)
        e == IF c.ex = <<>> THEN 0 ELSE (IF c.exneg THEN -1 ELSE 1) * SmallExp(c.ex)
        net == e - n
    IN IF net >= 0 THEN (IF net > 30 THEN Unspec ELSE RoundMag(FALSE, Mul(D, Pow10(net)), 0, c.fw))
       ELSE LET q == DivPow5(D, -net) IN IF q[2] THEN RoundMag(FALSE, q[1], net, c.fw) ELSE Unspec
HoldsFloat(c, obs) == obs.acc /\ (FloatValue(c) = Unspec \/ obs.o = FloatValue(c))

HoldsAny(c, obs) == CASE c.k = "int" -> HoldsInt(c, obs)
                      [] c.k \in {"char", "str"} -> HoldsText(c, obs)
                      [] c.k = "float" -> HoldsFloat(c, obs)
================================================================================
