------------------------------ MODULE TracePipeline ------------------------------
(***************************************************************************)
(* Validates recorded compilations against Pipeline.tla.  A record is      *)
(*   [ev |-> <<event, ...>>, herr, terr, unsafe, entries, ...]             *)
(* where each event is the name of a stage that completed or of a          *)
(* terminal / forbidden outcome.  Every record restarts the machine.       *)
(* A record is accepted iff all its events are consumed by Pipeline's      *)
(* actions and it ends in a terminal state with the gate invariant true.   *)
(***************************************************************************)
EXTENDS Pipeline, TLC, Json, IOUtils

Rec == ndJsonDeserialize(IOEnv.TRACE)

VARIABLES k,     \* record being replayed (0 = none yet)
          pos,   \* events of it consumed
          bad    \* the current record was rejected at pos
tvars == <<k, pos, bad, stage, errors, unsafe, object, entries>>

TInit == k = 0 /\ pos = 0 /\ bad = FALSE /\ PInit

Cur == Rec[IF k = 0 THEN 1 ELSE k]      \* total: k = 0 only before the first record
CtId == [e \in {"ct:1", "ct:2", "ct:3", "ct:4", "ct:5", "ct:6", "ct:7", "ct:8"} |->
            CASE e = "ct:1" -> 1 [] e = "ct:2" -> 2 [] e = "ct:3" -> 3 [] e = "ct:4" -> 4
              [] e = "ct:5" -> 5 [] e = "ct:6" -> 6 [] e = "ct:7" -> 7 [] e = "ct:8" -> 8]
(* consume event e of the current record with the matching Pipeline action *)
Consume(e) ==
    CASE e = "frontend" -> Frontend(Cur.herr, IF Cur.entries > 3 THEN 3 ELSE Cur.entries)
      [] e = "infer" -> Infer(Cur.terr, Cur.texpr, Cur.unsafe)
      [] e \in DOMAIN CtId -> EvalBlock(CtId[e], {Cur.ct_bad[j] : j \in 1..Len(Cur.ct_bad)})
      [] e = "diagnostics" -> Report
      [] e = "comptime" -> Comptime
      [] e = "no-entry" -> NoEntry
      [] e = "codegen" -> Codegen
      [] e = "link" -> Link
      [] OTHER -> FALSE      \* panic:<stage>, timeout, signal:<n>, cranelift-error, link-failed,
                             \* render-failed, exit-without-diagnostics: enabled by nothing

StepEvent ==
    /\ k > 0 /\ ~bad /\ pos < Len(Cur.ev)
    /\ \/ (Consume(Cur.ev[pos + 1]) /\ pos' = pos + 1 /\ UNCHANGED <<k, bad>>)
       \/ (~ENABLED Consume(Cur.ev[pos + 1]) /\ bad' = TRUE /\ UNCHANGED <<k, pos, stage, errors, unsafe, object, entries>>)
NextRecord ==
    /\ (k = 0 \/ bad \/ pos = Len(Cur.ev))
    /\ k < Len(Rec)
    /\ k' = k + 1 /\ pos' = 0 /\ bad' = FALSE
    /\ stage' = "start" /\ errors' = FALSE /\ unsafe' = FALSE /\ object' = FALSE /\ entries' = 0
TNext == StepEvent \/ NextRecord
TSpec == TInit /\ [][TNext]_tvars

Finished == k > 0 /\ ~bad /\ pos = Len(Cur.ev)
(* what is checked at the end of every record *)
EndsWell == Finished => (stage \in Terminal /\ Gate
                          /\ (Cur.want_link /\ ~errors /\ entries = 1 => stage = "linked"))
Reported ==
    /\ (bad => PrintT("BAD " \o ToJson([idx |-> k, at |-> pos + 1, why |-> "event not allowed by Pipeline.tla"])))
    /\ (EndsWell \/ PrintT("BAD " \o ToJson([idx |-> k, at |-> pos, why |-> "does not end in a terminal state satisfying the gate"])))
    /\ Gate
================================================================================
