------------------------------- MODULE TopoSched -------------------------------
(***************************************************************************)
(* (P) The scheduling contract the type checker relies on (property C26).  *)
(*                                                                         *)
(* Items are the things to infer (globals, lambdas, generic instances).    *)
(* A round offers work; every offered item then either completes or        *)
(* registers dependencies on items that have not completed yet (which may  *)
(* introduce new items).  Nothing here mentions counters, maps or          *)
(* insertion order - that is TopoImpl.tla.                                 *)
(***************************************************************************)
EXTENDS Naturals, FiniteSets

CONSTANT Items

VARIABLES pend,     \* items registered as pending
          waits,    \* waits[i]: registered dependencies of i that have not completed
          done,     \* items that completed
          offered,  \* what the current / last round offered
          cyc,      \* the current / last round was a cycle-breaking round
          todo,     \* offered items of the current round not yet processed
          round     \* number of rounds started

pvars == <<pend, waits, done, offered, cyc, todo, round>>

Ready == {i \in pend : waits[i] = {}}

Init == /\ pend \in (SUBSET Items) \ {{}}
        /\ waits = [i \in Items |-> {}]
        /\ done = {}
        /\ offered = {}
        /\ cyc = FALSE
        /\ todo = {}
        /\ round = 0

(* A round offers exactly the ready items; only if there are none (and      *)
(* something is pending) it offers everything and flags a cycle.            *)
StartRound ==
    /\ todo = {}
    /\ pend # {}
    /\ offered' = IF Ready # {} THEN Ready ELSE pend
    /\ cyc' = (Ready = {})
    /\ todo' = offered'
    /\ round' = round + 1
    /\ UNCHANGED <<pend, waits, done>>

Complete(i) ==
    /\ i \in todo
    /\ todo' = todo \ {i}
    /\ pend' = pend \ {i}
    /\ done' = done \cup {i}
    /\ waits' = [j \in Items |-> IF j = i THEN {} ELSE waits[j] \ {i}]
    /\ UNCHANGED <<offered, cyc, round>>

(* The usage protocol: dependencies are only registered on items that have  *)
(* not completed; unknown ones become pending.                              *)
Register(i, D) ==
    /\ i \in todo
    /\ D # {}
    /\ D \subseteq Items \ done
    /\ todo' = todo \ {i}
    /\ pend' = pend \cup D
    /\ waits' = [waits EXCEPT ![i] = @ \cup D]
    /\ UNCHANGED <<done, offered, cyc, round>>

Next == \/ StartRound
        \/ \E i \in Items : Complete(i)
        \/ \E i \in Items, D \in SUBSET Items : Register(i, D)

Spec == Init /\ [][Next]_pvars

--------------------------------------------------------------------------------
(* Properties of the contract itself (the four clauses of C26).             *)

TypeOK == /\ pend \subseteq Items /\ done \subseteq Items /\ todo \subseteq offered
          /\ offered \subseteq Items /\ cyc \in BOOLEAN /\ round \in Nat

WaitsArePending == \A i \in pend : waits[i] \subseteq pend
DoneNotPending  == done \cap pend = {}

(* clause 1+2, evaluated in the state right after StartRound *)
AtRoundStart == todo = offered /\ round > 0 /\ offered # {}
OfferedExactlyReady ==
    AtRoundStart => \/ (~cyc /\ offered = Ready)
                    \/ (cyc /\ Ready = {} /\ offered = pend)
CycleOnlyIfAllBlocked ==
    (AtRoundStart /\ cyc) => \A i \in pend : waits[i] \cap pend # {}

(* clause 3: an item that completed is never offered again; an item offered  *)
(* twice registered dependencies in between (it is the only way to stay      *)
(* pending).                                                                 *)
NeverOfferDone == offered \cap done \subseteq offered \ todo

(* clause 4: if from here on every offered item completes, the schedule      *)
(* empties within |pend| rounds.                                             *)
RECURSIVE Drain(_, _, _)
Drain(p, w, n) ==
    IF p = {} \/ n = 0 THEN p
    ELSE LET r   == {i \in p : w[i] \cap p = {}}
             off == IF r = {} THEN p ELSE r
         IN  Drain(p \ off, w, n - 1)
DrainsWhenAllComplete == (todo = {}) => Drain(pend, waits, Cardinality(pend)) = {}
================================================================================
