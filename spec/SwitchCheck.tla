-------------------------------- MODULE SwitchCheck --------------------------------
(***************************************************************************)
(* C11: switches are exhaustive, non-redundant, and dispatch on the run-time *)
(* variant.                                                                 *)
(*                                                                         *)
(* A sum type is [kind, n, shape, disc, wrap]: kind enum (n variants with   *)
(* the payload kinds of `shape`; "ptr" = ^i32) | opt (?i32: 1 = payload,    *)
(* 2 = nil) | nptr (?^i32) | eu (str!i32: 1 = payload, 2 = error) | euptr   *)
(* (str!^i32).  disc: auto | custom (7, 200, 255, 0, ..) | edge (A | 254,   *)
(* the rest counted up: the last fits) | over (A | 255, the rest counted    *)
(* up: does not fit a one-byte tag, the declaration is invalid).            *)
(* wrap: none | distinct (a distinct wrapper of it) | variant (the          *)
(* scrutinee has the type of an enum VARIANT whose payload is the sum type: *)
(* that is not a sum type).  A switch is [ty, arms, def, style, form]: arms *)
(* is a sequence of variant numbers (0 = a variant that does not belong to  *)
(* the type), def = it ends with a default arm, style = how arms are        *)
(* spelled, form = stmt | value (the switch yields a value and its first    *)
(* arm leaves the function instead).                                        *)
(*                                                                         *)
(* Static rule:  accepted <=> every arm names a variant of the type, no     *)
(* variant is named twice, and all variants are named or there is a default.*)
(* Dynamic rule: for a value whose current variant is r, exactly the arm    *)
(* naming r runs (the default arm if none does) with the argument bound to  *)
(* r's payload (to the whole value in the default arm).                     *)
(***************************************************************************)
EXTENDS Integers, Sequences, FiniteSets, TLC, Json

CONSTANTS MaxEnum,     \* largest number of enum variants
          MaxArms      \* longest arm list

VARIABLES c, r, out
vars == <<c, r, out>>

Shapes(n) == CASE n = 1 -> {<<"i32">>, <<"void">>}
               [] n = 2 -> {<<"i32", "void">>, <<"agg", "u8">>, <<"ptr", "void">>}
               [] n = 3 -> {<<"i32", "u8", "void">>, <<"void", "void", "void">>, <<"agg", "i32", "u8">>, <<"u8", "ptr", "agg">>}
               [] n = 4 -> {<<"void", "i32", "agg", "u8">>}
               [] n = 5 -> {<<"i32", "void", "u8", "void", "agg">>}
               [] n = 6 -> {<<"void", "u8", "i32", "agg", "void", "i32">>}
Wraps == {"none", "distinct", "variant"}
EnumTys == {[kind |-> "enum", n |-> n, shape |-> sh, disc |-> d, wrap |-> w] :
              n \in 1..MaxEnum, sh \in UNION {Shapes(m) : m \in 1..MaxEnum}, d \in {"auto", "custom", "edge", "over"}, w \in Wraps}
OtherTys == {[kind |-> k, n |-> 2, shape |-> <<>>, disc |-> "auto", wrap |-> w] : k \in {"opt", "nptr", "eu", "euptr"}, w \in Wraps}
Tys == {t \in EnumTys : /\ Len(t.shape) = t.n
                        /\ (t.disc \in {"edge", "over"} => (t.n >= 2 /\ t.wrap = "none"))
                        /\ (t.wrap = "variant" => t.disc = "auto")} \cup OtherTys

ArmLists(n) == UNION {[1..k -> 0..n] : k \in 0..MaxArms}
Switches == {[ty |-> t, arms |-> a, def |-> d, style |-> s, form |-> f] :
               t \in Tys, a \in ArmLists(MaxEnum), d \in BOOLEAN, s \in {"short", "full", "mixed"}, f \in {"stmt", "value"}}
Wellformed(s) == /\ \A k \in 1..Len(s.arms) : s.arms[k] <= s.ty.n
                 /\ Len(s.arms) <= s.ty.n + 1
                 /\ (s.ty.kind # "enum" => s.style = "full")      \* only enum variants have a shorthand
                 \* the value form and the odd declarations / scrutinees are tried with one spelling
                 /\ (s.form = "value" => (s.style = "full" /\ Len(s.arms) >= 1 /\ s.ty.wrap = "none" /\ s.ty.disc \in {"auto", "custom"}))
                 /\ ((s.ty.disc \in {"edge", "over"} \/ s.ty.wrap = "variant") => s.style = "full")

(* ------------------------------------------------------------------ static *)
Named(s) == {s.arms[k] : k \in 1..Len(s.arms)}
OnlyOwn(s) == 0 \notin Named(s)
NoDup(s) == \A i, j \in 1..Len(s.arms) : i # j => s.arms[i] # s.arms[j]
Covers(s) == s.def \/ (1..s.ty.n) \subseteq Named(s)
(* the type itself has to make sense: discriminants fit the one-byte tag, and the scrutinee is of
   the sum type (or a distinct wrapper of it), not of a variant type that merely contains it *)
TypeOk(t) == t.disc # "over" /\ t.wrap # "variant"
Accepted(s) == TypeOk(s.ty) /\ OnlyOwn(s) /\ NoDup(s) /\ Covers(s)

(* ----------------------------------------------------------------- dynamic *)
(* 0 stands for the default arm *)
ArmsFor(s, v) == {k \in 1..Len(s.arms) : s.arms[k] = v}
ArmFor(s, v) == IF ArmsFor(s, v) = {} THEN 0 ELSE CHOOSE k \in ArmsFor(s, v) : TRUE

Init == /\ c \in {s \in Switches : Wellformed(s)}
        /\ r = 0 /\ out = <<>>
(* run the switch on a value whose variant is r + 1 *)
Dispatch == /\ Accepted(c) /\ r < c.ty.n
            /\ r' = r + 1
            /\ out' = Append(out, [variant |-> r + 1, arm |-> ArmFor(c, r + 1)])
            /\ UNCHANGED c
Next == Dispatch
Spec == Init /\ [][Next]_vars

(* for an accepted switch exactly one arm is responsible for every variant *)
ExactlyOne == Accepted(c) =>
    \A v \in 1..c.ty.n : Cardinality(ArmsFor(c, v)) + (IF c.def /\ ArmsFor(c, v) = {} THEN 1 ELSE 0) = 1
Emitted == (~Accepted(c) \/ r = c.ty.n) =>
    PrintT("CASE " \o ToJson([c |-> c, accept |-> Accepted(c), out |-> out]))
================================================================================
