------------------------------- MODULE LayoutUniv -------------------------------
(* prints the layout universe of Layout.tla (for LEVEL) as JSON for the harness, and the C
   layout Layout.tla prescribes for the structs of scalars in it (validated against gcc) *)
EXTENDS Layout
CStructs == SelectSeq(LU, CComparable)
UInit == /\ i = 0
         /\ PrintT("LU " \o ToJson(LU))
         /\ PrintT("CLAYOUT " \o ToJson([k \in 1..Len(CStructs) |-> [t |-> CStructs[k], offs |-> COffsets(CStructs[k])]]))
USpec == UInit /\ [][FALSE]_vars
================================================================================
