---------------------------------- MODULE Arith ----------------------------------
(***************************************************************************)
(* C08: the meaning of Capy's numeric operators and numeric casts.          *)
(*                                                                         *)
(* Values are little-endian byte sequences (module BV); a numeric type is   *)
(*   [w |-> bytes, s |-> signed, f |-> float].                              *)
(* Result(c) gives, for a case record c, the bytes the language prescribes, *)
(* or Unspec (= <<-1>>) where the property does not constrain the result (division   *)
(* by zero, MIN / -1, a float that does not fit the target integer, NaN,    *)
(* infinities).                                                            *)
(*                                                                         *)
(* Floats are IEEE-754 binary32 / binary64 bit patterns.  Float arithmetic  *)
(* is specified only on dyadic operands k/4 with small k, whose exact       *)
(* results are representable (then IEEE requires exactly that result).      *)
(***************************************************************************)
EXTENDS BV, Integers, TLC

Unspec == <<-1>>      \* "the property does not constrain this result"

(* ------------------------------------------------------------------ ints *)
Cmp(op, a, b, sg) ==
    CASE op = "lt" -> Lt(a, b, sg)
      [] op = "le" -> Le(a, b, sg)
      [] op = "gt" -> Lt(b, a, sg)
      [] op = "ge" -> Le(b, a, sg)
      [] op = "eq" -> a = b
      [] op = "ne" -> a # b
BoolBytes(p) == IF p THEN <<1>> ELSE <<0>>
CmpOps == {"lt", "le", "gt", "ge", "eq", "ne"}
ArithOps == {"add", "sub", "mul", "div", "rem", "and", "or", "xor", "shl", "shr"}

DivDefined(a, b, sg) == ~IsZero(b) /\ ~(sg /\ a = MinS(Len(a)) /\ b = MaxU(Len(a)))
(* shift amounts are values of the operand type; only amounts below the width are constrained *)
ShiftDefined(b, n) == FitsNat(b) /\ ToNat(b) < 8 * n

IntBin(op, a, b, sg) ==
    LET n == Len(a) IN
    CASE op = "add" -> Add(a, b)
      [] op = "sub" -> Sub(a, b)
      [] op = "mul" -> Mul(a, b)
      [] op = "div" -> IF DivDefined(a, b, sg) THEN Div(a, b, sg) ELSE Unspec
      [] op = "rem" -> IF DivDefined(a, b, sg) THEN Rem(a, b, sg) ELSE Unspec
      [] op = "and" -> And(a, b)
      [] op = "or"  -> Or(a, b)
      [] op = "xor" -> Xor(a, b)
      [] op = "shl" -> IF ShiftDefined(b, n) THEN Shl(a, ToNat(b)) ELSE Unspec
      [] op = "shr" -> IF ShiftDefined(b, n) THEN Shr(a, ToNat(b), sg) ELSE Unspec
      [] op \in CmpOps -> BoolBytes(Cmp(op, a, b, sg))
IntUn(op, a) == CASE op = "neg" -> Neg(a) [] op = "bnot" -> Not(a) [] op = "pos" -> a

(* int -> int: truncate, or extend by the SOURCE's signedness *)
IntCast(a, srcSigned, n) == Resize(a, n, srcSigned)

(* ---------------------------------------------------------------- floats *)
Prec(fw) == IF fw = 4 THEN 24 ELSE 53          \* significand bits incl. the hidden one
Bias(fw) == IF fw = 4 THEN 127 ELSE 1023
ExpBits(fw) == IF fw = 4 THEN 8 ELSE 11

(* assemble sign / biased exponent / significand q (2^(p-1) <= q < 2^p as W-byte value) *)
Assemble(sign, bexp, q, fw) ==
    LET p == Prec(fw)
        frac == [i \in 0..(8 * fw - 1) |-> IF i < p - 1 THEN Bit(q, i) ELSE 0]
        ex == Shl(FromNat(bexp, fw), p - 1)
        sg == IF sign THEN Shl(One(fw), 8 * fw - 1) ELSE Zero(fw)
    IN Or(Or(FromBits(frac, fw), ex), sg)

(* nearest float (ties to even) of  (-1)^sign * mag * 2^scale, mag an unsigned W-byte value *)
RoundMag(sign, mag, scale, fw) ==
    IF IsZero(mag) THEN (IF sign THEN Shl(One(fw), 8 * fw - 1) ELSE Zero(fw))
    ELSE LET W == Len(mag)
             p == Prec(fw)
             t == TopBit(mag)
         IN IF t < p
            THEN Assemble(sign, t + scale + Bias(fw), Shl(mag, (p - 1) - t), fw)
            ELSE LET sh == t - (p - 1)
                     q0 == LShr(mag, sh)
                     rem == Sub(mag, Shl(q0, sh))
                     half == Shl(One(W), sh - 1)
                     up == ULt(half, rem) \/ (rem = half /\ Bit(q0, 0) = 1)
                     q1 == IF up THEN Add(q0, One(W)) ELSE q0
                     carry == Bit(q1, p) = 1          \* q1 = 2^p
                 IN IF carry THEN Assemble(sign, t + 1 + scale + Bias(fw), LShr(q1, 1), fw)
                    ELSE Assemble(sign, t + scale + Bias(fw), q1, fw)

(* integer (n bytes, signedness sg) to float: the nearest float of the FULL integer value *)
IntToFloat(a, sg, fw) ==
    LET neg == sg /\ SignBit(a)
        mag0 == IF neg THEN Neg(a) ELSE a      \* Neg(MIN) = MIN = 2^(8n-1) as unsigned: right
        W == IF Len(a) < 8 THEN 8 ELSE Len(a)
    IN RoundMag(neg, Resize(mag0, W, FALSE), 0, fw)

(* small dyadic k / 2^s (k a TLC integer, |k| < 2^30) as a float *)
Dyadic(k, s, fw) == RoundMag(k < 0, FromNat(IF k < 0 THEN -k ELSE k, 8), -s, fw)

FSign(f) == SignBit(f)
FExp(f) == LET fw == Len(f) p == Prec(fw) IN
           ToNat(And(LShr(f, p - 1), FromNat(2 ^ ExpBits(fw) - 1, fw)))
FFrac(f) == LET fw == Len(f) p == Prec(fw) IN
            FromBits([i \in 0..(8 * fw - 1) |-> IF i < p - 1 THEN Bit(f, i) ELSE 0], fw)
FIsFinite(f) == FExp(f) # 2 ^ ExpBits(Len(f)) - 1

(* float to integer type (n bytes, signed sg): truncation toward zero when the truncated value
   fits, unconstrained otherwise *)
FloatToInt(f, n, sg) ==
    LET fw == Len(f)
        p == Prec(fw)
        e == FExp(f)
        E == e - Bias(fw)                              \* unbiased exponent of a normal number
        W == IF n < 8 THEN 16 ELSE 2 * n               \* room for the shifted significand
        sig == Or(Resize(FFrac(f), W, FALSE), Shl(One(W), p - 1))
    IN IF ~FIsFinite(f) THEN Unspec
       ELSE IF e = 0 \/ E < 0 THEN Zero(n)             \* |f| < 1 (zero, subnormal, fraction)
       ELSE IF E >= 8 * n THEN Unspec                \* certainly does not fit
       ELSE LET mag == IF E >= p - 1 THEN Shl(sig, E - (p - 1)) ELSE LShr(sig, (p - 1) - E)
                low == Resize(mag, n, FALSE)
                fits == IF sg THEN (E < 8 * n - 1 \/ (FSign(f) /\ low = MinS(n)))
                        ELSE (~FSign(f) \/ IsZero(low))
            IN IF ~fits THEN Unspec ELSE IF FSign(f) THEN Neg(low) ELSE low

(* float -> float: exact when the value is representable in the target (always when widening) *)
FloatToFloat(f, fw2) ==
    LET fw == Len(f) p == Prec(fw) e == FExp(f) IN
    IF fw = fw2 THEN f
    ELSE IF ~FIsFinite(f) THEN Unspec
    ELSE IF e = 0 THEN (IF IsZero(FFrac(f)) THEN (IF FSign(f) THEN Shl(One(fw2), 8 * fw2 - 1) ELSE Zero(fw2))
                        ELSE Unspec)                 \* subnormals: not modelled
    ELSE LET W == 8
             sig == Or(Resize(FFrac(f), W, FALSE), Shl(One(W), p - 1))
             r == RoundMag(FSign(f), sig, (e - Bias(fw)) - (p - 1), fw2)
             e2 == (e - Bias(fw)) + Bias(fw2)
         IN IF fw2 > fw THEN r
            ELSE \* narrowing: only constrained when exact and in the normal range
                 IF e2 >= 1 /\ e2 < 2 ^ ExpBits(fw2) - 1
                    /\ IsZero(And(sig, FromNat(2 ^ (p - Prec(fw2)) - 1, W)))
                 THEN r ELSE Unspec

(* float arithmetic on dyadics ka/4, kb/4 *)
FloatBin(op, ka, kb, fw) ==
    CASE op = "add" -> Dyadic(ka + kb, 2, fw)
      [] op = "sub" -> Dyadic(ka - kb, 2, fw)
      [] op = "mul" -> Dyadic(ka * kb, 4, fw)
      [] op = "div" -> LET aa == IF ka < 0 THEN -ka ELSE ka
                           ab == IF kb < 0 THEN -kb ELSE kb
                       IN IF kb # 0 /\ aa % ab = 0
                          THEN Dyadic((IF (ka < 0) # (kb < 0) THEN -1 ELSE 1) * (aa \div ab), 0, fw)
                          ELSE Unspec
      [] op = "lt" -> BoolBytes(ka < kb)
      [] op = "le" -> BoolBytes(ka <= kb)
      [] op = "gt" -> BoolBytes(ka > kb)
      [] op = "ge" -> BoolBytes(ka >= kb)
      [] op = "eq" -> BoolBytes(ka = kb)
      [] op = "ne" -> BoolBytes(ka # kb)
FloatOps == {"add", "sub", "mul", "div"} \cup CmpOps

(* ----------------------------------------------------------------- cases *)
(* A case record:                                                           *)
(*  [k|->"bin", op, w, s, a, b]           integer binary operation          *)
(*  [k|->"un",  op, w, s, a]              integer unary operation           *)
(*  [k|->"cast", w, s, a, w2, s2]         int -> int                        *)
(*  [k|->"i2f", w, s, a, fw]              int -> float                      *)
(*  [k|->"f2i", fw, a, w2, s2]            float -> int  (a = float bits)    *)
(*  [k|->"f2f", fw, a, fw2]               float -> float                    *)
(*  [k|->"fbin", op, fw, ka, kb]          float binary on dyadics ka/4,kb/4 *)
(*  [k|->"fneg", fw, ka]                                                    *)
(* bool and char: a bool is one byte 0 / 1, a char one unsigned byte *)
BoolBinOp(op, a, b) ==
    LET x == a = <<1>> y == b = <<1>> IN
    BoolBytes(CASE op = "land" -> x /\ y [] op = "lor" -> x \/ y [] op = "and" -> x /\ y [] op = "or" -> x \/ y
                [] op = "xor" -> x # y [] op = "eq" -> x = y [] op = "ne" -> x # y)
Result(c) ==
    CASE c.k = "bin" -> IntBin(c.op, c.a, c.b, c.s)
      [] c.k = "bbin" -> BoolBinOp(c.op, c.a, c.b)
      [] c.k = "bnot" -> BoolBytes(c.a # <<1>>)
      [] c.k = "ccmp" -> BoolBytes(Cmp(c.op, c.a, c.b, FALSE))
      [] c.k = "b2i" -> Resize(c.a, c.w2, FALSE)              \* bool -> integer: 0 or 1
      [] c.k = "c2i" -> Resize(c.a, c.w2, FALSE)              \* char -> integer: its code, zero-extended
      [] c.k = "i2c" -> Resize(c.a, 1, FALSE)                 \* u8 -> char
      [] c.k = "un" -> IntUn(c.op, c.a)
      [] c.k = "cast" -> IntCast(c.a, c.s, c.w2)
      [] c.k = "i2f" -> IntToFloat(c.a, c.s, c.fw)
      [] c.k = "f2i" -> FloatToInt(c.a, c.w2, c.s2)
      [] c.k = "f2f" -> FloatToFloat(c.a, c.fw2)
      [] c.k = "fbin" -> FloatBin(c.op, c.ka, c.kb, c.fw)
      [] c.k = "fneg" -> Dyadic(-c.ka, 2, c.fw)

(* ------------------------------------------------------- observed results *)
(* Division is specified declaratively (this is the property's own wording: the quotient
   truncates toward zero): a = q*b + r exactly, |r| < |b|, r = 0 or sign(r) = sign(a).  The
   products are formed in twice the width, so nothing wraps. *)
DivRemOk(a, b, q, r, sg) ==
    LET n == Len(a)
        X(v) == Resize(v, 2 * n, sg)
    IN /\ Len(q) = n /\ Len(r) = n
       /\ Add(Mul(X(q), X(b)), X(r)) = X(a)
       /\ ULt(IF sg THEN Abs(r) ELSE r, IF sg THEN Abs(b) ELSE b)
       /\ (IsZero(r) \/ ~sg \/ SignBit(r) = SignBit(a))

(* o = what the real program printed for case c (a byte sequence); for "div"/"rem" cases the
   harness records both quotient and remainder as o = q \o r *)
Holds(c, o) ==
    IF c.k = "bin" /\ c.op \in {"div", "rem"}
    THEN ~DivDefined(c.a, c.b, c.s)
         \/ (Len(o) = 2 * c.w /\ DivRemOk(c.a, c.b, SubSeq(o, 1, c.w), SubSeq(o, c.w + 1, 2 * c.w), c.s))
    ELSE LET r == Result(c) IN
         \/ r = Unspec \/ r = o
         \* an exact float result of zero: IEEE fixes its sign by rules the property does not
         \* restate (0 * -x = -0, -(+0) = -0, x - x = +0); either signed zero is accepted
         \/ (c.k \in {"fbin", "fneg"} /\ Len(r) = c.fw /\ Len(o) = c.fw
             /\ IsZero(Shl(r, 1)) /\ IsZero(Shl(o, 1)))

(* boundary operands of an n-byte integer type *)
Boundary(n) ==
    {Zero(n), One(n), FromNat(2, n), FromNat(7, n), MaxU(n), Neg(FromNat(2, n)), Neg(FromNat(7, n)),
     MaxS(n), MinS(n), Sub(MaxS(n), One(n)), Add(MinS(n), One(n)),
     [k \in 1..n |-> 85], [k \in 1..n |-> 170], Pow2(4 * n, n), Pow2(8 * n - 2, n),
     Sub(Pow2(4 * n, n), One(n))}
ShiftAmounts(n) == {Zero(n), One(n), FromNat(7, n), FromNat(8 * n - 1, n), FromNat(4 * n, n)}
================================================================================
