SPECIFICATION Spec
CONSTANTS
  ByteSizes = {1, 3, 8, 9, 16, 17, 33, 64}
INVARIANTS SameAsRuntime EffectOnce Emitted
CHECK_DEADLOCK FALSE
