----------------------------------- MODULE Ty -----------------------------------
(***************************************************************************)
(* The type universe of Capy as TLA+ records mirroring hir::common::Ty,    *)
(* shared by TyRelLaws (C12 C13), Layout (C17) and Reflect (C18).          *)
(* The JSON form of these records is what the harness instantiates as real *)
(* Intern<Ty> values.                                                      *)
(*  w = 0: the weak {int}/{uint}/{float};  w = 255: isize / usize          *)
(***************************************************************************)
EXTENDS Naturals, Sequences, FiniteSets

IntT(w, s)   == [k |-> "int", w |-> w, s |-> s]
Float(w)    == [k |-> "float", w |-> w]
Simple(k)   == [k |-> k]
RawPtr(m)   == [k |-> "rawptr", m |-> m]
Arr(n, t)   == [k |-> "arr", n |-> n, sub |-> t]
AnonArr(n, t) == [k |-> "anonarr", n |-> n, sub |-> t]
Slice(t)    == [k |-> "slice", sub |-> t]
Ptr(m, t)   == [k |-> "ptr", m |-> m, sub |-> t]
Distinct(u, t) == [k |-> "distinct", uid |-> u, sub |-> t]
Opt(t)      == [k |-> "opt", sub |-> t]
EU(e, t)    == [k |-> "eu", err |-> e, ok |-> t]
Struct(u, ms) == [k |-> "struct", uid |-> u, ms |-> ms]        \* ms: <<<<name, ty>>, ...>>
AnonStruct(ms) == [k |-> "anonstruct", ms |-> ms]
Variant(eu, u, name, t, d) == [k |-> "variant", euid |-> eu, uid |-> u, name |-> name, sub |-> t, d |-> d]
Enum(u, vs) == [k |-> "enum", uid |-> u, vs |-> vs]
FnPtr(ps, r) == [k |-> "fnptr", ps |-> ps, ret |-> r]

I8 == IntT(8, TRUE)     U8 == IntT(8, FALSE)
I16 == IntT(16, TRUE)   U16 == IntT(16, FALSE)
I32 == IntT(32, TRUE)   U32 == IntT(32, FALSE)
I64 == IntT(64, TRUE)   U64 == IntT(64, FALSE)
I128 == IntT(128, TRUE) U128 == IntT(128, FALSE)
ISize == IntT(255, TRUE) USize == IntT(255, FALSE)
WInt == IntT(0, TRUE)   WUInt == IntT(0, FALSE)
F32 == Float(32) F64 == Float(64) WFloat == Float(0)
Bool == Simple("bool") Str == Simple("str") Char == Simple("char")
TypeT == Simple("type") AnyT == Simple("any") RawSlice == Simple("rawslice")
Void == Simple("void") Nil == Simple("nil")

Prims == <<I8, I16, I32, I64, I128, ISize, U8, U16, U32, U64, U128, USize, WInt, WUInt,
           F32, F64, WFloat, Bool, Str, Char, TypeT, AnyT, RawPtr(FALSE), RawPtr(TRUE), RawSlice,
           Void, Nil>>

(* the pool the constructors are applied to at depth 1 *)
Pool == <<I32, U8, I64, WUInt, WInt, F32, WFloat, Bool, Str, Void, Nil>>

(* nominal shapes with a small pool of uids: two enums with identical payloads, two structurally
   identical named structs, two distincts of the same type *)
E1A == Variant(1, 11, "A", I32, 0)   E1B == Variant(1, 12, "B", Void, 1)
E2A == Variant(2, 21, "A", I32, 0)   E2B == Variant(2, 22, "B", Void, 1)
E1 == Enum(1, <<E1A, E1B>>)          E2 == Enum(2, <<E2A, E2B>>)
S1 == Struct(3, <<<<"x", I32>>>>)    S2 == Struct(4, <<<<"x", I32>>>>)
S3 == Struct(7, <<<<"x", I32>>, <<"y", U8>>>>)
AS1 == AnonStruct(<<<<"x", I32>>>>)  AS2 == AnonStruct(<<<<"x", WUInt>>>>)
AS3 == AnonStruct(<<<<"x", WUInt>>, <<"y", WUInt>>>>)
D1 == Distinct(5, I32)               D2 == Distinct(6, I32)
D3 == Distinct(8, D1)                D4 == Distinct(9, F32)   D5 == Distinct(10, Opt(I32))
Nominals == <<E1A, E1B, E2A, E2B, E1, E2, S1, S2, S3, AS1, AS2, AS3, D1, D2, D3, D4, D5>>

FlatMap(seq, F(_)) ==
    LET RECURSIVE Go(_)
        Go(k) == IF k > Len(seq) THEN <<>> ELSE F(seq[k]) \o Go(k + 1)
    IN Go(1)

Constructed(base) ==
    FlatMap(base, LAMBDA t : <<Arr(2, t), AnonArr(2, t), Slice(t), Ptr(FALSE, t), Ptr(TRUE, t), Opt(t)>>)
    \o FlatMap(<<I32, Str, Void>>, LAMBDA e : FlatMap(<<I32, U8, Void, Str>>, LAMBDA t : <<EU(e, t)>>))
    \o <<FnPtr(<<>>, Void), FnPtr(<<I32>>, I32), FnPtr(<<I32>>, Void), FnPtr(<<U8>>, I32)>>

Depth1 == Prims \o Nominals \o Constructed(Pool \o <<E1, E1A, S1, D1>>)

(* a sample of depth 2: constructors over a few depth-1 types *)
Depth2Base == <<Opt(I32), Ptr(TRUE, I32), Ptr(FALSE, U8), Slice(U8), Arr(2, I32), AnonArr(2, WUInt),
                EU(Str, I32), D1, E1, S1, AS2>>
Depth2 == Constructed(Depth2Base)

(* universe 3: two constructor levels around the weak numbers and the strong types they can
   become (^^{uint} vs ^^i32, ^?{uint} vs ^?u64, ...): specialisation looks through pointers and
   optionals, and so must acceptance *)
Depth3Base == <<Ptr(FALSE, WUInt), Ptr(FALSE, I32), Ptr(TRUE, WUInt), Ptr(TRUE, I32), Opt(WUInt), Opt(U64),
                Ptr(FALSE, WFloat), Ptr(FALSE, F64), Opt(WInt), Opt(I32)>>
Depth3 == Depth3Base \o Constructed(Depth3Base)

Range(seq) == {seq[k] : k \in 1..Len(seq)}
================================================================================
