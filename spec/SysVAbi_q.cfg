SPECIFICATION Spec
CONSTANTS
  MaxParams = 6
  PoolSize = 19
INVARIANTS RegsOk
VIEW View
CHECK_DEADLOCK FALSE
