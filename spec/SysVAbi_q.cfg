SPECIFICATION Spec
CONSTANTS
  MaxParams = 6
  PoolSize = 16
INVARIANTS RegsOk
VIEW View
CHECK_DEADLOCK FALSE
