--------------------------------- MODULE Constness ---------------------------------
(***************************************************************************)
(* C15: only const values are used as types, sizes, discriminants and       *)
(* comptime arguments.                                                      *)
(*                                                                         *)
(* An expression in a const position is a chain of bindings ending in a     *)
(* base:  [links |-> <<l1, .., ln>>, base |-> b]  read as  l1 -> .. -> b    *)
(*   links: cl  `::` local      ml  `:=` local     g  global (same file)    *)
(*          gi  global of an imported file                                  *)
(*   bases: lit  a literal      ct  a comptime block   cp  a comptime       *)
(*          parameter           ex  an extern global   ar  arithmetic       *)
(*          call  a function call      mem  a struct member                 *)
(* The documented rule: a value is const iff it is a literal, a comptime    *)
(* block, a comptime parameter, or an IMMUTABLE binding to a const value.   *)
(* Positions: ty (type annotation), len (array length), disc (enum          *)
(* discriminant), carg (comptime argument); sort = what the position needs  *)
(* (a type or an integer).  `late` = the global is defined after its use.   *)
(***************************************************************************)
EXTENDS Naturals, Sequences, FiniteSets, TLC, Json

CONSTANT MaxLinks
VARIABLES c, k
vars == <<c, k>>

Links == {"cl", "ml", "g", "gi"}
IntBases == {"lit", "ct", "cp", "ex", "ar", "call", "mem"}
TyBases == {"lit", "ct", "cp", "call"}
Chains(n) == UNION {[1..m -> Links] : m \in 0..n}
Positions == {"ty", "len", "disc", "carg"}
Sort(p) == IF p = "ty" THEN "type" ELSE "int"
Cases == {[links |-> ls, base |-> b, pos |-> p, sort |-> so, late |-> lt] :
            ls \in Chains(MaxLinks), b \in IntBases, p \in Positions, so \in {"type", "int"}, lt \in BOOLEAN}
(* a comptime argument may be a type or an integer; the other positions fix the sort *)
Wellformed(x) == /\ (x.pos # "carg" => x.sort = Sort(x.pos))
                 /\ (x.sort = "type" => x.base \in TyBases)
                 /\ (x.late => \E j \in 1..Len(x.links) : x.links[j] \in {"g", "gi"})
                 \* a local cannot be bound to something that is only visible later; a global cannot
                 \* refer to a local
                 /\ \A j \in 1..(Len(x.links) - 1) : (x.links[j] \in {"g", "gi"} => x.links[j + 1] \in {"g", "gi"})
                 /\ ((Len(x.links) > 0 /\ x.links[Len(x.links)] \in {"g", "gi"}) => x.base \notin {"cp", "mem"})

(* the rule, evaluated link by link from the base outwards: k counts the links already crossed *)
BaseConst(b) == b \in {"lit", "ct", "cp"}
LinkConst(l) == l \in {"cl", "g", "gi"}
Init == c \in {x \in Cases : Wellformed(x)} /\ k = 0
Cross == k < Len(c.links) /\ k' = k + 1 /\ UNCHANGED c
Next == Cross
Spec == Init /\ [][Next]_vars
ConstUpTo(x, n) == BaseConst(x.base) /\ \A j \in (Len(x.links) - n + 1)..Len(x.links) : LinkConst(x.links[j])
Const(x) == ConstUpTo(x, Len(x.links))
(* constness can only be lost, never regained, when another binding is put in front *)
Monotone == \A n \in 0..k : (ConstUpTo(c, k) => ConstUpTo(c, n))
(* the value an accepted integer denotes *)
BaseValue(b) == CASE b = "lit" -> 3 [] b = "ct" -> 4 [] b = "cp" -> 5 [] OTHER -> 0
Emitted == k = Len(c.links) =>
    PrintT("CASE " \o ToJson([c |-> c, const |-> Const(c), value |-> BaseValue(c.base)]))
================================================================================
