---------------------------------- MODULE Bounds ----------------------------------
(***************************************************************************)
(* C10: out-of-range indexing and wrong #unwrap abort before touching       *)
(* memory; in-range accesses touch exactly the addressed element.           *)
(*                                                                         *)
(* One behaviour = one small program:                                      *)
(*     print "A"; <the access>; print the memory; print "B"                 *)
(* over a memory  g1 | container elements | g2  (g1, g2 are guard values).  *)
(* The access either has its effect on exactly one element, or - index >=   *)
(* length, or an #unwrap of the wrong variant - prints a fault message and  *)
(* exits with status 1 with the memory untouched and nothing printed after. *)
(* A literal index that is out of range for a fixed-size array is rejected  *)
(* statically instead.                                                     *)
(*                                                                         *)
(* Index cases:  [k |-> "idx", cont, elem, acc, len, idx, lit]              *)
(*   cont: arr | slice | parr (^mut [N]T) | pparr (^mut ^mut [N]T) |        *)
(*         pslice (^mut []T) | nout ([N][2]T, outer index) |                *)
(*         nin ([2][N]T, inner index)                                      *)
(*   elem: "i32" | "agg" (struct {a: i32, b: u8})                           *)
(*   acc:  read | write | cwrite (compound +=) | refmut (^mut of element)   *)
(* Unwrap cases: [k |-> "unw", sum, cur, want, form]                        *)
(*   sum: enum (A: i32, B: u8, C) | opt (?i32) | nptr (?^i32) | eu (u8!i32) *)
(*   cur / want: variant numbers; form: unwrap | unwrap1 (one argument,     *)
(*   = the payload variant) | isvar (#is_variant)                           *)
(***************************************************************************)
EXTENDS Integers, Sequences, FiniteSets, TLC, Json

CONSTANT MaxLen      \* lengths are 1..MaxLen where the bound applies

VARIABLES c, pc, mem, guards, out
vars == <<c, pc, mem, guards, out>>

FixedSize(cont) == cont \in {"arr", "parr", "pparr", "nout", "nin"}
Conts == {"arr", "slice", "parr", "pparr", "pslice", "nout", "nin"}
Lens == {1, MaxLen}
IdxCases == {[k |-> "idx", cont |-> co, elem |-> e, acc |-> a, len |-> n, idx |-> i, lit |-> l] :
               co \in Conts, e \in {"i32", "agg"}, a \in {"read", "write", "cwrite", "refmut"},
               n \in Lens, i \in 0..(MaxLen + 4), l \in BOOLEAN}
IdxOk(x) == x.idx <= x.len + 4

(* sum types: number of variants, and which variant is the payload of the one-argument form *)
NVar(s) == IF s = "enum" THEN 3 ELSE 2          \* opt / nptr: 1 = payload, 2 = nil; eu: 1 = ok, 2 = error
UnwCases == {[k |-> "unw", sum |-> s, cur |-> a, want |-> b, form |-> f] :
               s \in {"enum", "opt", "nptr", "eu"}, a \in 1..3, b \in 1..3, f \in {"unwrap", "unwrap1", "isvar"}}
UnwOk(x) == x.cur <= NVar(x.sum) /\ x.want <= NVar(x.sum)
            /\ (x.form = "unwrap1" => (x.sum \in {"opt", "nptr"} /\ x.want = 1))
Cases == {x \in IdxCases : IdxOk(x)} \cup {x \in UnwCases : UnwOk(x)}

(* ----------------------------------------------------------------- statics *)
Rejected(x) == x.k = "idx" /\ x.lit /\ FixedSize(x.cont) /\ x.idx >= x.len

(* ---------------------------------------------------------------- dynamics *)
Elem0(x, k) == IF x.elem = "i32" THEN <<10 + k>> ELSE <<10 + k, 20 + k>>
NewVal(x) == IF x.elem = "i32" THEN <<77>> ELSE <<77, 7>>
Bump(v) == [v EXCEPT ![1] = v[1] + 1]
Payload(x) == CASE x.sum = "enum" -> (IF x.cur = 1 THEN <<41>> ELSE IF x.cur = 2 THEN <<42>> ELSE <<>>)
                [] x.sum \in {"opt", "nptr"} -> (IF x.cur = 1 THEN <<43>> ELSE <<>>)
                [] x.sum = "eu" -> (IF x.cur = 1 THEN <<44>> ELSE <<45>>)

Init == /\ c \in {x \in Cases : ~Rejected(x)}
        /\ pc = "start"
        /\ mem = (IF c.k = "idx" THEN [k \in 1..c.len |-> Elem0(c, k)] ELSE <<>>)
        /\ guards = <<101, 102>>
        /\ out = <<>>

Mark1 == pc = "start" /\ pc' = "access" /\ out' = Append(out, <<"A">>) /\ UNCHANGED <<c, mem, guards>>

InRange == c.idx < c.len
AccessOk ==
    /\ pc = "access" /\ c.k = "idx" /\ InRange
    /\ pc' = "print"
    /\ UNCHANGED <<c, guards>>
    /\ CASE c.acc = "read" -> (mem' = mem /\ out' = Append(out, <<"R", mem[c.idx + 1]>>))
         [] c.acc \in {"write", "refmut"} -> (mem' = [mem EXCEPT ![c.idx + 1] = NewVal(c)] /\ out' = out)
         [] c.acc = "cwrite" -> (mem' = [mem EXCEPT ![c.idx + 1] = Bump(@)] /\ out' = out)
AccessFault ==
    /\ pc = "access" /\ c.k = "idx" /\ ~InRange
    /\ pc' = "exit1" /\ out' = Append(out, <<"FAULT", "index out of bounds">>)
    /\ UNCHANGED <<c, mem, guards>>
UnwrapOk ==
    /\ pc = "access" /\ c.k = "unw" /\ (c.form = "isvar" \/ c.cur = c.want)
    /\ pc' = "print" /\ UNCHANGED <<c, mem, guards>>
    /\ out' = Append(out, IF c.form = "isvar" THEN <<"V", c.cur = c.want>> ELSE <<"P", Payload(c)>>)
UnwrapFault ==
    /\ pc = "access" /\ c.k = "unw" /\ c.form # "isvar" /\ c.cur # c.want
    /\ pc' = "exit1" /\ out' = Append(out, <<"FAULT", "unwrap">>) /\ UNCHANGED <<c, mem, guards>>
PrintMem == pc = "print" /\ pc' = "mark2" /\ out' = Append(out, <<"M", guards[1], mem, guards[2]>>)
         /\ UNCHANGED <<c, mem, guards>>
Mark2 == pc = "mark2" /\ pc' = "exit0" /\ out' = Append(out, <<"B">>) /\ UNCHANGED <<c, mem, guards>>

Next == Mark1 \/ AccessOk \/ AccessFault \/ UnwrapOk \/ UnwrapFault \/ PrintMem \/ Mark2
Spec == Init /\ [][Next]_vars

(* ---------------------------------------------------------------- properties *)
(* an access changes at most the addressed element, never the guards *)
Frame == /\ guards = <<101, 102>>
         /\ c.k = "idx" => \A k \in 1..c.len : (k # c.idx + 1 => mem[k] = Elem0(c, k))
(* after a fault nothing is written and nothing more is printed *)
FaultStops == pc = "exit1" => (out[Len(out)][1] = "FAULT"
                                /\ (c.k = "idx" => mem = [k \in 1..c.len |-> Elem0(c, k)]))
Emitted == pc \in {"exit0", "exit1"} =>
    PrintT("CASE " \o ToJson([c |-> c, reject |-> FALSE, out |-> out, status |-> IF pc = "exit1" THEN 1 ELSE 0]))
(* the statically rejected cases are listed once *)
ASSUME PrintT("REJECTS " \o ToJson({x \in Cases : Rejected(x)}))
================================================================================
