-------------------------------- MODULE NominalProg --------------------------------
(***************************************************************************)
(* C13 at program level: a value of a nominal type (distinct, enum variant, *)
(* named struct) placed where another type is expected.                     *)
(*                                                                         *)
(* Source kinds A:  d1, d2 (two distincts of i32), dd (distinct of d1),     *)
(*   s1 (named struct), va (variant A: i32 of enum e1), vb (payload-less    *)
(*   variant of e1), i32 (the underlying type), lit (an untyped literal)    *)
(* Expected types B: d1 d2 dd s1 s2 (s2 structurally identical to s1) i32   *)
(*   e1 e2 (e2 has the same variants as e1)                                 *)
(* Positions: ann (x : B = a)  arg (f(a), f :: (p: B))  ret (-> B { a })    *)
(*   asg (b = a, b : B)  op (a + b, b : B; integers only)                   *)
(*   flowl (x : B = 1 + a)  flowr (x : B = a + 1)  flowi (x : B = i + a,    *)
(*   i : i32): the result of an operation on a distinct value is still of   *)
(*   the distinct type, whichever side it stands on                         *)
(* Rule: accepted iff A = B, or A is a variant of the enum B, or A is an    *)
(* untyped literal and B is an integer type or a distinct of one.  In       *)
(* particular never for a different nominal type, nor for A's own           *)
(* underlying type.  Casts distinct <-> underlying are accepted and keep    *)
(* the bytes.                                                               *)
(***************************************************************************)
EXTENDS Naturals, Sequences, FiniteSets, TLC, Json

VARIABLES c, k
vars == <<c, k>>
Srcs == {"d1", "d2", "dd", "s1", "va", "vb", "i32", "lit"}
Dsts == {"d1", "d2", "dd", "s1", "s2", "i32", "e1", "e2"}
Poss == {"ann", "arg", "ret", "asg", "op", "flowl", "flowr", "flowi"}
Flow(p) == p \in {"flowl", "flowr", "flowi"}
IntLike(t) == t \in {"d1", "d2", "dd", "i32"}
Cases == {[a |-> a, b |-> b, pos |-> p] : a \in Srcs, b \in Dsts, p \in Poss}
Wellformed(x) == /\ x.pos = "op" => (IntLike(x.b) /\ (IntLike(x.a) \/ x.a = "lit"))
                 /\ Flow(x.pos) => (x.a \in {"d1", "dd"} /\ IntLike(x.b))
Accept(x) == \/ x.a = x.b
             \/ (x.a \in {"va", "vb"} /\ x.b = "e1")
             \/ (x.a = "lit" /\ IntLike(x.b))
(* the chain of reasons, one step per clause, so that TLC's graph has the rule's case analysis *)
Init == c \in {x \in Cases : Wellformed(x)} /\ k = 0
Next == k = 0 /\ k' = 1 /\ UNCHANGED c
Spec == Init /\ [][Next]_vars
(* nominal sources are never accepted by another nominal type nor by their underlying type *)
NominalLaw == (c.a \in {"d1", "d2", "dd", "s1", "va", "vb"} /\ c.a # c.b /\ ~(c.a \in {"va", "vb"} /\ c.b = "e1"))
                  => ~Accept(c)
(* the property constrains NOMINAL sources (and the untyped literal); whether a plain i32 value is
   accepted where a distinct of i32 is expected is not stated by it (the language accepts it) *)
Judged(x) == /\ ~(x.a = "i32" /\ x.b \in {"d1", "d2", "dd"})
             \* whether a strong i32 and a distinct of i32 may be operands of one operation at all is
             \* not stated; but its result is never accepted as another type than the distinct
             /\ ~(x.pos = "flowi" /\ x.a = x.b)
Emitted == k = 1 => PrintT("CASE " \o ToJson([c |-> c, accept |-> Accept(c), judged |-> Judged(c)]))
================================================================================
