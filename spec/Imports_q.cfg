SPECIFICATION Spec
CONSTANTS
  MaxMain = 2
  MaxOther = 1
  Emit = TRUE
INVARIANTS ParsedOnce ParsedInClosure ExactlyClosure Emitted
CHECK_DEADLOCK FALSE
