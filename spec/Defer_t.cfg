SPECIFICATION Spec
CONSTANTS
  MaxLen = 8
  MaxDepth = 4
  MaxDefers = 3
  MaxJumps = 2
  Emit = TRUE
INVARIANTS AtMostReached LIFOWithinBlock TopLevelRunOnce Emitted
CONSTRAINT Constr
CHECK_DEADLOCK FALSE
