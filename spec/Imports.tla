--------------------------------- MODULE Imports --------------------------------
(***************************************************************************)
(* C28: imports resolve to the right files and each file is compiled once. *)
(*                                                                         *)
(* Fixed directory tree (paths are component sequences):                   *)
(*   w/main.capy  w/a.capy  w/d/b.capy  w/d/c.txt        working dir = w   *)
(*   o/o.capy                                            outside w, mods   *)
(*   mods/m/src/mod.capy (iff ModPresent)  mods/m/src/x.capy  module dir   *)
(* A configuration gives each of main.capy, a.capy, d/b.capy a list of     *)
(* directives  [k |-> "import", p |-> <<components>>]  or                  *)
(*             [k |-> "mod", m |-> name];  mod.capy always imports x.capy. *)
(*                                                                         *)
(* (P) Resolution, the accept / reject table, the set of compiled files    *)
(*     (closure of accepted imports from main.capy) and what `file.id`     *)
(*     denotes.                                                            *)
(* (M) The CLI's work-list (crates/capy/src/main.rs: current_imports,      *)
(*     source_files de-duplicated by path) as a state machine; TLC checks  *)
(*     for every configuration that it terminates, parses exactly the      *)
(*     closure and parses no file twice - cycles and self-imports included.*)
(***************************************************************************)
EXTENDS Naturals, Sequences, FiniteSets, TLC, Json

CONSTANTS MaxMain, MaxOther, Emit

VARIABLES cfg,        \* [main, a, b |-> <<directive, ...>>, mod |-> BOOLEAN]
          phase,      \* "build" (configuration under construction) | "run" | "done"
          pending,    \* (M) current_imports: set of paths found and not yet taken
          batch,      \* (M) old_imports: the batch being iterated
          parsed      \* (M) sequence of files parsed, in order
vars == <<cfg, phase, pending, batch, parsed>>

Imp(p) == [k |-> "import", p |-> p, m |-> ""]
Mod(m) == [k |-> "mod", p |-> <<>>, m |-> m]

Main == <<"w", "main.capy">>   FA == <<"w", "a.capy">>   FB == <<"w", "d", "b.capy">>
FC == <<"w", "d", "c.txt">>    FO == <<"o", "o.capy">>
FMod == <<"mods", "m", "src", "mod.capy">>   FX == <<"mods", "m", "src", "x.capy">>
Files(c) == {Main, FA, FB, FC, FO, FX} \cup (IF c.mod THEN {FMod} ELSE {})
Id == [f \in {Main, FA, FB, FC, FO, FMod, FX} |->
         CASE f = Main -> 1 [] f = FA -> 2 [] f = FB -> 3 [] f = FC -> 4 [] f = FO -> 5 [] f = FMod -> 6 [] f = FX -> 7]

MainPool == <<Imp(<<"a.capy">>), Imp(<<"d", "b.capy">>), Imp(<<".", "a.capy">>), Imp(<<"d", "..", "a.capy">>),
              Imp(<<"missing.capy">>), Imp(<<"d", "c.txt">>), Imp(<<"..", "o", "o.capy">>),
              Imp(<<"main.capy">>), Mod("m"), Mod("nope"), Mod("m.x")>>
APool == <<Imp(<<"main.capy">>), Imp(<<"d", "b.capy">>), Imp(<<"a.capy">>), Imp(<<"nothere.capy">>), Mod("m")>>
BPool == <<Imp(<<"..", "a.capy">>), Imp(<<"b.capy">>), Imp(<<"..", "main.capy">>), Imp(<<"c.txt">>),
           Imp(<<"..", "..", "o", "o.capy">>)>>

--------------------------------------------------------------------------------
(* (P) *)
Dir(f) == SubSeq(f, 1, Len(f) - 1)
RECURSIVE Norm(_, _)
Norm(comps, acc) ==
    IF comps = <<>> THEN acc
    ELSE IF Head(comps) = "." THEN Norm(Tail(comps), acc)
    ELSE IF Head(comps) = ".." THEN Norm(Tail(comps), IF acc = <<>> THEN <<>> ELSE SubSeq(acc, 1, Len(acc) - 1))
    ELSE Norm(Tail(comps), Append(acc, Head(comps)))
ResolvePath(importer, p) == Norm(Dir(importer) \o p, <<>>)
IsCapy(path) == path # <<>> /\ path[Len(path)] \in {"main.capy", "a.capy", "b.capy", "o.capy", "mod.capy",
                                                   "x.capy", "missing.capy", "nothere.capy"}
Within(path, root) == Len(path) > Len(root) /\ SubSeq(path, 1, Len(root)) = root
Alnum(m) == m \in {"m", "nope"}

(* the reasons a directive of `importer` is rejected ({} = accepted) and what it resolves to *)
Reasons(c, importer, d) ==
    IF d.k = "mod" THEN
        (IF ~Alnum(d.m) THEN {"ModMustBeAlphanumeric"} ELSE {})
        \cup (IF Alnum(d.m) /\ <<"mods", d.m, "src", "mod.capy">> \notin Files(c)
              THEN {"ModDoesNotExist", "ModDoesNotContainModFile"} ELSE {})
    ELSE LET r == ResolvePath(importer, d.p) IN
        (IF ~IsCapy(r) THEN {"ImportMustEndInDotCapy"} ELSE {})
        \cup (IF r \notin Files(c) THEN {"ImportDoesNotExist"} ELSE {})
        \cup (IF ~Within(r, <<"w">>) /\ ~Within(r, <<"mods">>) THEN {"ImportOutsideCWD"} ELSE {})
Target(importer, d) == IF d.k = "mod" THEN <<"mods", d.m, "src", "mod.capy">> ELSE ResolvePath(importer, d.p)

Directives(c, f) == CASE f = Main -> c.main [] f = FA -> c.a [] f = FB -> c.b
                      [] f = FMod -> <<Imp(<<"x.capy">>)>> [] OTHER -> <<>>
Accepted(c, f) == {Target(f, Directives(c, f)[n]) : n \in {n \in 1..Len(Directives(c, f)) :
                                                              Reasons(c, f, Directives(c, f)[n]) = {}}}
RECURSIVE Closure(_, _)
Closure(c, S) == LET T == S \cup UNION {Accepted(c, f) : f \in S} IN IF T = S THEN S ELSE Closure(c, T)
Compiled(c) == Closure(c, {Main})
AllAccepted(c) == \A f \in Compiled(c) : \A n \in 1..Len(Directives(c, f)) : Reasons(c, f, Directives(c, f)[n]) = {}

--------------------------------------------------------------------------------
(* configuration enumeration, then (M) the CLI work-list *)
Init == /\ cfg = [main |-> <<>>, a |-> <<>>, b |-> <<>>, mod |-> TRUE]
        /\ phase = "build" /\ pending = {} /\ batch = {} /\ parsed = <<>>

AddMain == \E n \in 1..Len(MainPool) :
              /\ Len(cfg.main) < MaxMain
              /\ \A j \in 1..Len(cfg.main) : cfg.main[j] # MainPool[n]
              /\ (IF cfg.main = <<>> THEN TRUE
                  ELSE \E j \in 1..Len(MainPool) : MainPool[j] = cfg.main[Len(cfg.main)] /\ j < n)
              /\ cfg' = [cfg EXCEPT !.main = Append(@, MainPool[n])]
AddA == \E n \in 1..Len(APool) : Len(cfg.a) < MaxOther /\ cfg' = [cfg EXCEPT !.a = Append(@, APool[n])]
AddB == \E n \in 1..Len(BPool) : Len(cfg.b) < MaxOther /\ cfg' = [cfg EXCEPT !.b = Append(@, BPool[n])]
DropMod == cfg.mod /\ cfg' = [cfg EXCEPT !.mod = FALSE]
Build == /\ phase = "build"
         /\ (AddMain \/ AddA \/ AddB \/ DropMod)
         /\ UNCHANGED <<phase, pending, batch, parsed>>

(* main.rs: parse the entry file, collect its imports *)
Start == /\ phase = "build"
         /\ phase' = "run"
         /\ parsed' = <<Main>>
         /\ pending' = Accepted(cfg, Main)
         /\ batch' = {}
         /\ UNCHANGED cfg
(* `while !current_imports.is_empty() { let old = mem::take(&mut current_imports); ...` *)
TakeBatch == /\ phase = "run" /\ batch = {} /\ pending # {}
             /\ batch' = pending /\ pending' = {}
             /\ UNCHANGED <<cfg, phase, parsed>>
(* `for file_name in old_imports { if source_files.contains_key(..) { continue } parse; extend }` *)
Seen(f) == \E n \in 1..Len(parsed) : parsed[n] = f
VisitOne == /\ phase = "run" /\ batch # {}
            /\ \E f \in batch :
                 /\ batch' = batch \ {f}
                 /\ IF Seen(f) THEN UNCHANGED <<parsed, pending>>
                    ELSE /\ parsed' = Append(parsed, f)
                         /\ pending' = pending \cup Accepted(cfg, f)
            /\ UNCHANGED <<cfg, phase>>
Finish == /\ phase = "run" /\ batch = {} /\ pending = {}
          /\ phase' = "done" /\ UNCHANGED <<cfg, pending, batch, parsed>>

Next == Build \/ Start \/ TakeBatch \/ VisitOne \/ Finish
Spec == Init /\ [][Next]_vars

--------------------------------------------------------------------------------
ParsedSet == {parsed[n] : n \in 1..Len(parsed)}
(* never twice, never a file outside the closure, and exactly the closure at the end *)
ParsedOnce == Cardinality(ParsedSet) = Len(parsed)
ParsedInClosure == phase # "build" => ParsedSet \subseteq Compiled(cfg)
ExactlyClosure == phase = "done" => ParsedSet = Compiled(cfg)
(* termination: the work-list can always make progress until done (no deadlock before done is
   checked by TLC with deadlock checking on: `done` states stutter explicitly) *)
Done == phase = "done" /\ UNCHANGED vars
SpecD == Init /\ [][Next \/ Done]_vars

Sites(c) == [f \in Compiled(c) |->
               [n \in 1..Len(Directives(c, f)) |->
                   [reasons |-> Reasons(c, f, Directives(c, f)[n]),
                    target |-> Target(f, Directives(c, f)[n]),
                    id |-> IF Target(f, Directives(c, f)[n]) \in DOMAIN Id THEN Id[Target(f, Directives(c, f)[n])] ELSE 0]]]

Emitted ==
    (Emit /\ phase = "build") =>
        PrintT("REPLAY " \o ToJson([cfg |-> cfg,
                                    compiled |-> Compiled(cfg),
                                    ok |-> AllAccepted(cfg),
                                    main_sites |-> Sites(cfg)[Main],
                                    a_sites |-> IF FA \in Compiled(cfg) THEN Sites(cfg)[FA] ELSE <<>>,
                                    b_sites |-> IF FB \in Compiled(cfg) THEN Sites(cfg)[FB] ELSE <<>>]))
================================================================================
