--------------------------------- MODULE Defer ---------------------------------
(***************************************************************************)
(* C03 (P): each executed defer runs exactly once, in LIFO order, on every *)
(* exit path.                                                              *)
(*                                                                         *)
(* A skeleton program is a well-nested token sequence                      *)
(*    d            defer emit(<letter of this position>)                   *)
(*    blk(l)       block, l = 1: labeled `a                                *)
(*    loop(l)      while loop running its body for iterations 1, 2         *)
(*    cblk(w)      if-block: runs iff w = 0 (a runtime-true condition) or  *)
(*                 the nearest loop is in iteration w                      *)
(*    end          closes the innermost open scope                         *)
(*    jmp(k, l)    break / continue (l = 1: to label `a), return, try      *)
(*                 (a `.try` on nil: it propagates)                        *)
(*    tryok        a `.try` on a present value: control stays in the block *)
(* After every blk / loop that is left normally a marker is printed, and a *)
(* final marker "$" when the function body falls off its end.              *)
(*                                                                         *)
(* TLC's state graph *is* the enumeration: one state per skeleton, built   *)
(* by appending tokens.  For every complete skeleton the reference         *)
(* semantics below gives the output the language prescribes and the        *)
(* invariants of the semantics itself are checked (RunsExactlyOnce, LIFO). *)
(***************************************************************************)
EXTENDS Naturals, Sequences, FiniteSets, TLC, Json

CONSTANTS MaxLen, MaxDepth, MaxDefers, MaxJumps, Emit

VARIABLES prog, stack, njumps
vars == <<prog, stack, njumps>>

Tok(t, a, b) == [t |-> t, a |-> a, b |-> b]
JumpKinds == {"break", "continue", "return", "try"}

IsOpen(tk) == tk.t \in {"blk", "loop", "cblk"}

--------------------------------------------------------------------------------
(* static structure of a token sequence *)

RECURSIVE MatchFrom(_, _, _)
MatchFrom(p, k, depth) ==       \* position of the end token matching the open token at k
    IF IsOpen(p[k]) THEN MatchFrom(p, k + 1, depth + 1)
    ELSE IF p[k].t = "end" THEN (IF depth = 1 THEN k ELSE MatchFrom(p, k + 1, depth - 1))
    ELSE MatchFrom(p, k + 1, depth)
Match(p, k) == MatchFrom(p, k + 1, 1)

(* positions of the scopes enclosing position k, innermost first *)
Enclosing(p, k) ==
    LET opens == {j \in 1..(k - 1) : IsOpen(p[j]) /\ Match(p, j) > k}
        RECURSIVE Sorted(_)
        Sorted(S) == IF S = {} THEN <<>>
                     ELSE LET m == CHOOSE x \in S : \A y \in S : y <= x
                          IN <<m>> \o Sorted(S \ {m})
    IN Sorted(opens)

FirstWhere(seq, P(_)) ==
    LET idx == {n \in 1..Len(seq) : P(seq[n])} IN
    IF idx = {} THEN 0 ELSE seq[CHOOSE n \in idx : \A m \in idx : n <= m]

(* the scope a jump at position k leaves / continues; 0 = the function body *)
Target(p, k) ==
    LET tk == p[k] enc == Enclosing(p, k) IN
    CASE tk.a \in {"return", "try"} -> 0
      [] tk.a = "break" /\ tk.b = 0 ->
            FirstWhere(enc, LAMBDA j : p[j].t = "loop" \/ (p[j].t = "blk" /\ p[j].a = 1))
      [] tk.a = "break" /\ tk.b = 1 ->
            FirstWhere(enc, LAMBDA j : p[j].t \in {"loop", "blk"} /\ p[j].a = 1)
      [] tk.a = "continue" /\ tk.b = 0 -> FirstWhere(enc, LAMBDA j : p[j].t = "loop")
      [] tk.a = "continue" /\ tk.b = 1 ->
            FirstWhere(enc, LAMBDA j : p[j].t \in {"loop", "blk"} /\ p[j].a = 1)

--------------------------------------------------------------------------------
(* reference semantics: returns [out, sig] where sig = <<kind, target>> or <<"none", 0>>;
   out is a sequence of events  <<"D", position>> (a defer ran), <<"M", position>> (marker
   after a scope), <<"$", 0>> (end of function body reached)                           *)

RunDefers(pend) == [n \in 1..Len(pend) |-> <<"D", pend[Len(pend) + 1 - n]>>]

RECURSIVE ExecSeq(_, _, _, _, _, _)
RECURSIVE ExecLoop(_, _, _, _, _)

ExecSeq(p, k, e, pend, out, it) ==
    IF k >= e THEN [out |-> out \o RunDefers(pend), sig |-> <<"none", 0>>]
    ELSE
    LET tk == p[k] IN
    CASE tk.t = "d" -> ExecSeq(p, k + 1, e, Append(pend, k), out, it)
      [] tk.t = "mark" -> ExecSeq(p, k + 1, e, pend, Append(out, <<"$", 0>>), it)
      [] tk.t = "tryok" -> ExecSeq(p, k + 1, e, pend, out, it)
      [] tk.t = "jmp" ->
            LET tp == Target(p, k)
                kind == IF tk.a = "continue" THEN "continue" ELSE "break"
            IN [out |-> out \o RunDefers(pend), sig |-> <<kind, tp>>]
      [] tk.t = "blk" ->
            LET m == Match(p, k)
                r == ExecSeq(p, k + 1, m, <<>>, out, it)
            IN IF r.sig[1] = "none" \/ r.sig = <<"break", k>>
               THEN ExecSeq(p, m + 1, e, pend, Append(r.out, <<"M", k>>), it)
               ELSE [out |-> r.out \o RunDefers(pend), sig |-> r.sig]
      [] tk.t = "cblk" ->
            LET m == Match(p, k) IN
            IF tk.a = 0 \/ tk.a = it
            THEN LET r == ExecSeq(p, k + 1, m, <<>>, out, it)
                 IN IF r.sig[1] = "none" THEN ExecSeq(p, m + 1, e, pend, r.out, it)
                    ELSE [out |-> r.out \o RunDefers(pend), sig |-> r.sig]
            ELSE ExecSeq(p, m + 1, e, pend, out, it)
      [] tk.t = "loop" ->
            LET m == Match(p, k)
                r == ExecLoop(p, k, m, out, 1)
            IN IF r.sig[1] = "none"
               THEN ExecSeq(p, m + 1, e, pend, Append(r.out, <<"M", k>>), it)
               ELSE [out |-> r.out \o RunDefers(pend), sig |-> r.sig]

ExecLoop(p, k, m, out, iter) ==
    IF iter > 2 THEN [out |-> out, sig |-> <<"none", 0>>]
    ELSE LET r == ExecSeq(p, k + 1, m, <<>>, out, iter) IN
         IF r.sig[1] = "none" \/ r.sig = <<"continue", k>> THEN ExecLoop(p, k, m, r.out, iter + 1)
         ELSE IF r.sig = <<"break", k>> THEN [out |-> r.out, sig |-> <<"none", 0>>]
         ELSE r

(* the end-of-body marker "$" is the body's last statement: it is printed before the body's
   defers run, and not at all when the body is left by a jump *)
Output(p) == ExecSeq(p \o <<Tok("mark", 0, 0)>>, 1, Len(p) + 2, <<>>, <<>>, 0).out


--------------------------------------------------------------------------------
(* enumeration of skeletons *)

LastIsJump == prog # <<>> /\ prog[Len(prog)].t = "jmp"
InLoop == \E n \in 1..Len(stack) : prog[stack[n]].t = "loop"
HasLabel(l) == \E n \in 1..Len(stack) : prog[stack[n]].t \in {"blk", "loop"} /\ prog[stack[n]].a = l
NearestLabelIsLoop ==
    LET idx == {n \in 1..Len(stack) : prog[stack[n]].t \in {"blk", "loop"} /\ prog[stack[n]].a = 1}
    IN idx # {} /\ prog[stack[CHOOSE n \in idx : \A m \in idx : m <= n]].t = "loop"

Init == prog = <<>> /\ stack = <<>> /\ njumps = 0

AppendTok(tk) == /\ Len(prog) < MaxLen
                 /\ prog' = Append(prog, tk)

AddDefer == /\ ~LastIsJump
            /\ AppendTok(Tok("d", 0, 0))
            /\ UNCHANGED <<stack, njumps>>
            /\ LET start == IF stack = <<>> THEN 0 ELSE stack[Len(stack)]
                   closedp == prog \o [n \in 1..Len(stack) |-> Tok("end", 0, 0)]
                   mine == {k \in (start + 1)..Len(prog) : prog[k].t = "d" /\
                              (IF stack = <<>> THEN Enclosing(closedp, k) = <<>>
                               ELSE Enclosing(closedp, k) # <<>> /\ Enclosing(closedp, k)[1] = start)}
               IN Cardinality(mine) < MaxDefers

(* a succeeding `.try` only matters after a defer of the same function *)
AddTryOk == /\ ~LastIsJump
            /\ prog # <<>> /\ prog[Len(prog)].t # "tryok"
            /\ \E k \in 1..Len(prog) : prog[k].t = "d"
            /\ AppendTok(Tok("tryok", 0, 0))
            /\ UNCHANGED <<stack, njumps>>

Open(kind, a) == /\ ~LastIsJump
                 /\ Len(stack) < MaxDepth
                 /\ Len(prog) + 1 < MaxLen          \* room for the matching end
                 /\ (kind = "cblk" /\ a > 0) => InLoop
                 /\ AppendTok(Tok(kind, a, 0))
                 /\ stack' = Append(stack, Len(prog) + 1)
                 /\ UNCHANGED njumps

Close == /\ stack # <<>>
         /\ AppendTok(Tok("end", 0, 0))
         /\ stack' = SubSeq(stack, 1, Len(stack) - 1)
         /\ UNCHANGED njumps

Jump(kind, l) ==
    /\ ~LastIsJump
    /\ njumps < MaxJumps
    /\ kind = "continue" => (IF l = 0 THEN InLoop ELSE NearestLabelIsLoop)
    /\ (kind = "break" /\ l = 1) => HasLabel(1)
    /\ kind \in {"return", "try"} => l = 0
    /\ AppendTok(Tok("jmp", kind, l))
    /\ njumps' = njumps + 1
    /\ UNCHANGED stack

(* leave room to close every open scope *)
Fits == Len(prog) + Len(stack) <= MaxLen

Next == \/ AddDefer
        \/ AddTryOk
        \/ \E a \in {0, 1} : Open("blk", a) \/ Open("loop", a)
        \/ \E w \in {0, 1, 2} : Open("cblk", w)
        \/ Close
        \/ \E k \in JumpKinds, l \in {0, 1} : Jump(k, l)

Spec == Init /\ [][Next]_vars

Complete == stack = <<>> /\ prog # <<>>
HasDefer == \E k \in 1..Len(prog) : prog[k].t = "d"

--------------------------------------------------------------------------------
(* properties of the reference semantics (checked for every complete skeleton) *)

DeferEvents(o) == {n \in 1..Len(o) : o[n][1] = "D"}
Ran(o, k) == Cardinality({n \in DeferEvents(o) : o[n][2] = k})

(* a defer inside a loop body can be reached once per iteration; outside loops at most once *)
MaxReach(p, k) ==
    LET loops == {j \in 1..(k - 1) : p[j].t = "loop" /\ Match(p, j) > k} IN
    2 ^ Cardinality(loops)
AtMostReached == Complete =>
    \A k \in 1..Len(prog) : prog[k].t = "d" => Ran(Output(prog), k) <= MaxReach(prog, k)

(* LIFO inside one block: when two defers of the same block both run in one exit, the later
   one runs first.  Stated on straight-line skeletons (no loop) where each runs at most once *)
SameBlock(p, j, k) == Enclosing(p, j) = Enclosing(p, k)
NoLoops == \A k \in 1..Len(prog) : prog[k].t # "loop"
Pos(o, k) == CHOOSE n \in DeferEvents(o) : o[n][2] = k
LIFOWithinBlock == (Complete /\ NoLoops) =>
    LET o == Output(prog) IN
    \A j, k \in 1..Len(prog) :
        (prog[j].t = "d" /\ prog[k].t = "d" /\ j < k /\ SameBlock(prog, j, k)
           /\ Ran(o, j) = 1 /\ Ran(o, k) = 1) => Pos(o, k) < Pos(o, j)

(* top-level defers (reached unconditionally before any jump) always run exactly once *)
TopLevelRunOnce == Complete =>
    LET o == Output(prog) IN
    \A k \in 1..Len(prog) :
        (prog[k].t = "d" /\ Enclosing(prog, k) = <<>>
           /\ \A j \in 1..(k - 1) : prog[j].t \notin {"jmp", "loop", "blk", "cblk"}) => Ran(o, k) = 1

Emitted == (Emit /\ Complete /\ HasDefer /\ Fits) =>
    PrintT("REPLAY " \o ToJson([prog |-> prog, out |-> Output(prog)]))

Constr == Fits
================================================================================
