SPECIFICATION MSpec
CONSTANTS
  Items = {1,2,3,4}
  MaxRounds = 8
  EmitReplay = FALSE
VIEW View
INVARIANTS CountersExact NoDupKeys POfferedExactlyReady PCycleOnlyIfAllBlocked PWaitsArePending PDoneNotPending PNeverOfferDone PDrains
PROPERTY PSpec
CHECK_DEADLOCK FALSE
