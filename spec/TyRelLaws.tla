------------------------------- MODULE TyRelLaws --------------------------------
(***************************************************************************)
(* C12 / C13 (P): laws of implicit conversion, casting, weak-type          *)
(* specialisation and common-type selection, checked on the table of what  *)
(* the real functions (Ty::can_fit_into, can_cast_to, might_be_weak +      *)
(* is_weak_replaceable_by, max) answer for every ordered pair of the       *)
(* universe of Ty.tla.                                                     *)
(*                                                                         *)
(* Record: [a, b: type terms; fit, cast, weak, hasmax: 0 no / 1 yes /      *)
(*          2 panicked; max, maxrev: rendering of max(a,b), max(b,a);      *)
(*          fit_a_max, fit_b_max: a, b accepted by max(a,b)]               *)
(***************************************************************************)
EXTENDS Ty, TLC, Json, IOUtils

Rec == ndJsonDeserialize(IOEnv.TRACE)
Which == IOEnv.UNIVERSE                   \* "1", "2" or "3"
U == IF Which = "1" THEN Depth1 ELSE IF Which = "2" THEN Depth2 ELSE Depth3

VARIABLE i
vars == <<i>>

Yes(x) == x = 1
NoPanic(r) == r.fit # 2 /\ r.cast # 2 /\ r.weak # 2 /\ r.hasmax # 2

(* C12 *)
Reflexive(r)       == r.a = r.b => Yes(r.fit)
FitImpliesCast(r)  == Yes(r.fit) => Yes(r.cast)
WeakImpliesFit(r)  == Yes(r.weak) => Yes(r.fit)
MaxAcceptsBoth(r)  == Yes(r.hasmax) => (Yes(r.fit_a_max) /\ Yes(r.fit_b_max))
MaxSymmetric(r)    == r.max = r.maxrev

(* C13: distinct types, enum variants and named structs are nominal *)
NominalSrc(t) == t.k \in {"distinct", "variant", "struct"}
NominalDst(t) == t.k \in {"distinct", "variant", "struct", "enum"}
OwnEnum(a, b) == a.k = "variant" /\ b.k = "enum" /\ b.uid = a.euid
Underlying(a, b) == a.k \in {"distinct", "variant"} /\ b = a.sub
Nominal(r) ==
    (NominalSrc(r.a) /\ r.a # r.b /\ ~OwnEnum(r.a, r.b) /\ (NominalDst(r.b) \/ Underlying(r.a, r.b)))
        => ~Yes(r.fit)
(* explicit casts between a distinct type and its underlying type are accepted, both ways *)
DistinctCasts(r) ==
    /\ (r.a.k = "distinct" /\ r.b = r.a.sub) => Yes(r.cast)
    /\ (r.b.k = "distinct" /\ r.a = r.b.sub) => Yes(r.cast)

Laws == <<"Reflexive", "FitImpliesCast", "WeakImpliesFit", "MaxAcceptsBoth", "MaxSymmetric",
          "Nominal", "DistinctCasts">>
Holds(r, law) ==
    CASE law = "Reflexive" -> Reflexive(r)
      [] law = "FitImpliesCast" -> FitImpliesCast(r)
      [] law = "WeakImpliesFit" -> WeakImpliesFit(r)
      [] law = "MaxAcceptsBoth" -> MaxAcceptsBoth(r)
      [] law = "MaxSymmetric" -> MaxSymmetric(r)
      [] law = "Nominal" -> Nominal(r)
      [] law = "DistinctCasts" -> DistinctCasts(r)
Broken(r) == {n \in 1..Len(Laws) : ~Holds(r, Laws[n])}

Init == i = 0
Next == i < Len(Rec) /\ i' = i + 1
Spec == Init /\ [][Next]_vars

Checked ==
    i > 0 =>
      LET r == Rec[i] IN
      /\ (NoPanic(r) \/ PrintT("PANIC " \o ToJson([idx |-> i])))
      /\ (Broken(r) = {} \/ PrintT("BAD " \o ToJson([idx |-> i, laws |-> [n \in Broken(r) |-> Laws[n]]])))

(* the table covers the whole universe: every ordered pair exactly once, and the terms are the
   ones this module generates *)
Complete ==
    /\ TLCGet("distinct") = Len(Rec) + 1
    /\ Len(Rec) = Len(U) * Len(U)
    /\ \A k \in 1..Len(Rec) : Rec[k].a = U[Rec[k].i] /\ Rec[k].b = U[Rec[k].j]
    /\ Cardinality({<<Rec[k].i, Rec[k].j>> : k \in 1..Len(Rec)}) = Len(Rec)
================================================================================
