--------------------------------- MODULE Layout ---------------------------------
(***************************************************************************)
(* C17: type layouts obey the documented representation rules.             *)
(*                                                                         *)
(* One record per type of the universe below (built from Ty.tla terms):    *)
(*   [t |-> term, size, align, stride, offsets (struct) or <<>>,           *)
(*    tag (offset of the one-byte tag) or -1 encoded as 1000000,        *)
(*    subs |-> layouts of the direct components in order]                  *)
(* as answered by the code generator's own layout queries                  *)
(* (codegen::verif_api::layouts) for pointer width PTR.                    *)
(*                                                                         *)
(* (P) Rules(r): the representation rules of the property, stated on the   *)
(*     record and the records of its direct components.                    *)
(* (M) MSize / MAlign / MOffsets: crates/codegen/src/layout.rs transcribed *)
(*     (calc_single, StructLayout::new, padding_needed_for) - drift only.  *)
(* (C) CLayout: the System V C layout of structs of scalars, for the       *)
(*     comparison with the host C compiler.                                *)
(***************************************************************************)
EXTENDS Ty, TLC, Json, IOUtils

Rec == ndJsonDeserialize(IOEnv.TRACE)
PtrBits == atoi(IOEnv.PTR)
Level == IOEnv.LEVEL          \* "1": depth <= 1, "2": adds the depth-2 sample
PB == PtrBits \div 8
NoTag == 1000000

VARIABLE i
vars == <<i>>

--------------------------------------------------------------------------------
(* the universe *)
Scalars == <<I8, I16, I32, I64, I128, ISize, U8, U16, U32, U64, U128, USize, WInt, WUInt,
             F32, F64, WFloat, Bool, Char>>
Others == <<Str, TypeT, AnyT, RawPtr(FALSE), RawPtr(TRUE), RawSlice, Void, Nil>>
Base == Scalars \o Others

MemberPool == <<U8, U16, I32, I64, F32, Bool, Str, I128>>
(* non-recursive builders (the sequences are long; deep recursion overflows TLC's stack) *)
ListsOfLen(pool, n) ==
    [k \in 1..(Len(pool) ^ n) |->
        [j \in 1..n |-> pool[(((k - 1) \div (Len(pool) ^ (n - j))) % Len(pool)) + 1]]]
MapN(seq, F(_), n) ==      \* FlatMap for an F that always yields n elements
    [k \in 1..(Len(seq) * n) |-> F(seq[((k - 1) \div n) + 1])[((k - 1) % n) + 1]]
Named(ms) == [k \in 1..Len(ms) |-> <<<<"a", "b", "c", "d">>[k], ms[k]>>]
StructsOf(lists) == [k \in 1..Len(lists) |-> AnonStruct(Named(lists[k]))]
EnumOf(u, ms) == Enum(u, [k \in 1..Len(ms) |-> Variant(u, 100 * u + k, <<"A", "B", "C", "D">>[k], ms[k], k - 1)])
(* payloads whose size is not a multiple of their alignment (size # stride) matter: a variant has
   its payload's SIZE, and the tag sits right after the largest payload's size *)
P_I64U8 == AnonStruct(Named(<<I64, U8>>))      \* size 9, stride 16
P_I32U8 == AnonStruct(Named(<<I32, U8>>))      \* size 5, stride 8
EnumLists == <<<<Void>>, <<Void, Void>>, <<U8>>, <<I64>>, <<Void, U8>>, <<U8, I64>>, <<I32, Str>>,
               <<Void, I32, F64>>, <<Str, Void, U8>>, <<I64, I64, Void, U8>>,
               <<P_I64U8, Arr(12, U8)>>, <<Opt(I32), U8>>, <<P_I32U8, Void>>, <<EU(U8, I64), I32>>,
               <<Arr(3, P_I32U8)>>>>
Enums == [k \in 1..Len(EnumLists) |-> EnumOf(50 + k, EnumLists[k])]
Variants == FlatMap(Enums, LAMBDA e : e.vs)

Wrap(base) ==
    MapN(base, LAMBDA t : <<Arr(0, t), Arr(1, t), Arr(3, t), Slice(t), Ptr(FALSE, t), Ptr(TRUE, t),
                            Opt(t), Distinct(900, t)>>, 8)
EUErrs == <<Void, U8, I32, Str, I64>>
EUs(base) ==
    [k \in 1..(Len(EUErrs) * Len(base)) |->
        EU(EUErrs[((k - 1) \div Len(base)) + 1], base[((k - 1) % Len(base)) + 1])]

(* structs with zero-sized members: a zero-length array keeps its element's alignment, so it pads
   what precedes it and raises the struct's alignment although it occupies nothing *)
ZLists == <<<<U8, Arr(0, I64)>>, <<U8, Arr(0, I32), U8, I16>>, <<Arr(0, I64)>>, <<U8, Arr(0, Str)>>,
            <<U8, Void, I32>>, <<U8, Nil>>, <<Arr(3, Void), I16>>, <<U8, Arr(0, U16), U8>>,
            <<I32, Arr(0, P_I64U8)>>, <<U8, AnonStruct(<<>>), I16>>, <<Arr(0, U8), I64>>,
            <<U8, Arr(0, Ptr(FALSE, I32))>>, <<U8, Arr(0, I128)>>>>
LD1 == Wrap(Base) \o EUs(<<Void, U8, U16, I32, I64, Str, Bool, F64, I128>>)
        \o StructsOf(ListsOfLen(MemberPool, 1) \o ListsOfLen(MemberPool, 2) \o ListsOfLen(MemberPool, 3))
        \o StructsOf(ZLists)
        \o Enums \o Variants
        \o <<FnPtr(<<>>, Void), FnPtr(<<I32>>, I32)>>

(* depth 2: constructors over a sample of depth-1 types, structs with aggregate members *)
S_A == AnonStruct(Named(<<U8, I64>>))      S_B == AnonStruct(Named(<<I32, U8>>))
S_C == AnonStruct(Named(<<Str, Bool>>))    S_D == AnonStruct(Named(<<U8, U8, U8>>))
D2Base == <<Arr(3, U8), Arr(3, I16), Arr(1, I64), Slice(U8), Ptr(FALSE, I32), Opt(U8), Opt(I64),
            Opt(Ptr(FALSE, I32)), Opt(Str), EU(U8, I64), EU(Str, Void), Distinct(901, U16),
            S_A, S_B, S_C, S_D, Enums[5], Enums[6], Enums[10], Variants[3], Variants[10]>>
D2Members == <<U8, I64, Arr(3, U8), Opt(U8), Opt(I64), S_A, S_B, Enums[6], EU(U8, I64), Slice(U8)>>
D2Enums == <<EnumOf(70, <<S_A, Opt(I64), Void>>), EnumOf(71, <<Arr(3, U8), Str>>),
             EnumOf(72, <<Enums[6], U8>>), EnumOf(73, <<Enums[11], Opt(Enums[12])>>)>>
LD2 == Wrap(D2Base) \o EUs(D2Base)
        \o StructsOf(ListsOfLen(D2Members, 1) \o ListsOfLen(D2Members, 2) \o ListsOfLen(D2Members, 3))
        \o D2Enums \o FlatMap(D2Enums, LAMBDA e : e.vs)

LU == IF Level = "1" THEN Base \o LD1 ELSE Base \o LD1 \o LD2

--------------------------------------------------------------------------------
(* (P) the representation rules *)

Pow2Le8(a) == a \in {1, 2, 4, 8}
RoundUp(n, a) == ((n + a - 1) \div a) * a
Max2(a, b) == IF a > b THEN a ELSE b
RECURSIVE MaxOver(_, _, _)
MaxOver(seq, F(_), acc) == IF seq = <<>> THEN acc ELSE MaxOver(Tail(seq), F, Max2(acc, F(Head(seq))))

(* "an optional of a pointer is exactly pointer-sized" - through distinct wrappers as well *)
RECURSIVE Strip(_)
Strip(t) == IF t.k \in {"distinct", "variant"} THEN Strip(t.sub) ELSE t
OptOfPointer(t) == t.k = "opt" /\ Strip(t.sub).k \in {"ptr", "rawptr"}

Rules(r) ==
    LET t == r.t s == r.subs IN
    /\ Pow2Le8(r.align)
    /\ r.stride = RoundUp(r.size, r.align)
    /\ t.k \in {"struct", "anonstruct"} =>
         /\ Len(r.offsets) = Len(t.ms) /\ Len(s) = Len(t.ms)
         /\ \A k \in 1..Len(s) : r.offsets[k] % s[k].align = 0
         /\ \A k \in 1..(Len(s) - 1) : r.offsets[k] + s[k].size <= r.offsets[k + 1]   \* in order, disjoint
         /\ Len(s) > 0 => r.offsets[Len(s)] + s[Len(s)].size <= r.size
         /\ \A k \in 1..Len(s) : s[k].align <= r.align
    /\ t.k \in {"arr", "anonarr"} => r.size = t.n * s[1].stride
    /\ t.k \in {"distinct", "variant"} => (r.size = s[1].size /\ r.align = s[1].align)
    /\ OptOfPointer(t) => (r.size = PB /\ r.tag = NoTag)
    /\ (t.k = "opt" /\ ~OptOfPointer(t)) =>
         (r.tag # NoTag /\ r.tag = s[1].size /\ r.size = r.tag + 1 /\ r.align = s[1].align)
    /\ t.k = "eu" =>
         (r.tag = Max2(s[1].size, s[2].size) /\ r.size = r.tag + 1
            /\ r.align = Max2(s[1].align, s[2].align))
    /\ t.k = "enum" =>
         (r.tag = MaxOver(s, LAMBDA x : x.size, 0) /\ r.size = r.tag + 1
            /\ r.align = MaxOver(s, LAMBDA x : x.align, 1))

--------------------------------------------------------------------------------
(* (M) layout.rs as coded *)
PaddingNeededFor(off, al) == LET mis == off % al IN IF mis > 0 THEN al - mis ELSE 0

RECURSIVE MSize(_), MAlign(_)
MStride(t) == LET a == MAlign(t) IN RoundUp(MSize(t), a)
Min8(x) == IF x < 8 THEN x ELSE 8

RECURSIVE StructFold(_, _, _, _)
StructFold(ms, k, off, acc) ==     \* StructLayout::new: <<offsets, size>>
    IF k > Len(ms) THEN <<acc, off>>
    ELSE LET ft == ms[k][2]
             o == off + PaddingNeededFor(off, MAlign(ft))
         IN StructFold(ms, k + 1, o + MSize(ft), Append(acc, o))
MOffsets(t) == StructFold(t.ms, 1, 0, <<>>)[1]

IsNonZero(t) == Strip(t).k \in {"ptr", "rawptr"}      \* Ty::is_non_zero = is_pointer (through distincts / variants)

MSize(t) ==
    CASE t.k = "int" -> (IF t.w = 255 THEN PB ELSE IF t.w = 0 THEN 4 ELSE t.w \div 8)
      [] t.k = "float" -> (IF t.w = 0 THEN 4 ELSE t.w \div 8)
      [] t.k \in {"bool", "char"} -> 1
      [] t.k = "str" -> PB
      [] t.k \in {"arr", "anonarr"} -> MStride(t.sub) * t.n
      [] t.k = "slice" -> PB * 2
      [] t.k = "ptr" -> PB
      [] t.k = "distinct" -> MSize(t.sub)
      [] t.k = "fnptr" -> PB
      [] t.k \in {"struct", "anonstruct"} -> StructFold(t.ms, 1, 0, <<>>)[2]
      [] t.k = "enum" -> MaxOver(t.vs, LAMBDA v : MSize(v), 0) + 1
      [] t.k = "variant" -> MSize(t.sub)
      [] t.k = "nil" -> 0
      [] t.k = "opt" -> (IF IsNonZero(t.sub) THEN MSize(t.sub) ELSE MSize(t.sub) + 1)
      [] t.k = "eu" -> Max2(MSize(t.err), MSize(t.ok)) + 1
      [] t.k = "type" -> 4
      [] t.k = "any" -> LET ra == Min8(PB) IN 4 + PaddingNeededFor(4, ra) + PB
      [] t.k = "rawptr" -> PB
      [] t.k = "rawslice" -> PB * 2
      [] t.k = "void" -> 0

MAlign(t) ==
    CASE t.k \in {"int", "float"} -> Min8(MSize(t))
      [] t.k \in {"bool", "char"} -> 1
      [] t.k \in {"str", "ptr", "fnptr", "rawptr"} -> Min8(MSize(t))
      [] t.k \in {"arr", "anonarr"} -> MAlign(t.sub)
      [] t.k \in {"slice", "rawslice"} -> Min8(MSize(t) \div 2)
      [] t.k \in {"distinct", "variant", "opt"} -> MAlign(t.sub)
      [] t.k \in {"struct", "anonstruct"} -> MaxOver(t.ms, LAMBDA m : MAlign(m[2]), 1)
      [] t.k = "enum" -> MaxOver(t.vs, LAMBDA v : MAlign(v), 1)
      [] t.k = "nil" -> 1
      [] t.k = "eu" -> Max2(MAlign(t.err), MAlign(t.ok))
      [] t.k = "type" -> 4
      [] t.k = "any" -> Max2(4, Min8(PB))
      [] t.k = "void" -> 1

MTag(t) ==
    CASE t.k = "enum" -> MaxOver(t.vs, LAMBDA v : MSize(v), 0)
      [] t.k = "opt" -> (IF IsNonZero(t.sub) THEN NoTag ELSE MSize(t.sub))
      [] t.k = "eu" -> Max2(MSize(t.err), MSize(t.ok))
      [] OTHER -> NoTag

ModelAgrees(r) ==
    /\ r.size = MSize(r.t) /\ r.align = MAlign(r.t) /\ r.stride = MStride(r.t)
    /\ (r.t.k \in {"struct", "anonstruct"} => r.offsets = MOffsets(r.t))
    /\ (r.t.k \in {"enum", "opt", "eu"} => r.tag = MTag(r.t))

--------------------------------------------------------------------------------
(* (C) System V layout of a struct of scalars: every field at the next multiple of its
   alignment; alignment of a C scalar = min(size, 16 for __int128 / 8 otherwise) *)
CScalar(t) == t.k \in {"int", "float", "bool", "char"} /\ ~(t.k = "int" /\ t.w \in {0}) /\ ~(t.k = "float" /\ t.w = 0)
CSize(t) == MSize(t)
CAlign(t) == IF t.k = "int" /\ t.w = 128 THEN 16 ELSE MSize(t)
RECURSIVE CFold(_, _, _, _)
CFold(ms, k, off, acc) ==
    IF k > Len(ms) THEN acc
    ELSE LET ft == ms[k][2] o == RoundUp(off, CAlign(ft)) IN CFold(ms, k + 1, o + CSize(ft), Append(acc, o))
COffsets(t) == CFold(t.ms, 1, 0, <<>>)
IsScalarStruct(t) == t.k \in {"struct", "anonstruct"} /\ \A k \in 1..Len(t.ms) : CScalar(t.ms[k][2])
(* i128 is 8-aligned in Capy (alignment is capped at 8) but 16-aligned in C: such structs are
   outside the comparison *)
CComparable(t) == IsScalarStruct(t) /\ \A k \in 1..Len(t.ms) : ~(t.ms[k][2].k = "int" /\ t.ms[k][2].w = 128)
MatchesC(r) == (PtrBits = 64 /\ CComparable(r.t)) => r.offsets = COffsets(r.t)

--------------------------------------------------------------------------------
Init == i = 0
Next == i < Len(Rec) /\ i' = i + 1
Spec == Init /\ [][Next]_vars

Checked ==
    i > 0 =>
      LET r == Rec[i] IN
      \* completeness: the records are exactly the universe, in order (evaluated here and not in
      \* the postcondition: LU's construction needs the workers' large stack)
      /\ ((i <= Len(LU) /\ r.t = LU[i]) \/ PrintT("BAD " \o ToJson([idx |-> i, why |-> "record is not the universe's term"])))
      /\ ((i < Len(Rec) \/ Len(Rec) = Len(LU)) \/ PrintT("BAD " \o ToJson([idx |-> i, why |-> "table shorter than the universe"])))
      /\ (r.panic = "" \/ PrintT("BAD " \o ToJson([idx |-> i, why |-> "panic"])))
      /\ (r.panic # "" \/ Rules(r) \/ PrintT("BAD " \o ToJson([idx |-> i, why |-> "representation rule"])))
      /\ (r.panic # "" \/ MatchesC(r) \/ PrintT("BAD " \o ToJson([idx |-> i, why |-> "differs from the C layout"])))
      /\ (r.panic # "" \/ ModelAgrees(r) \/ PrintT("DRIFT " \o ToJson([idx |-> i])))

Complete == TLCGet("distinct") = Len(Rec) + 1
================================================================================
