------------------------------- MODULE ParserObs -------------------------------
(***************************************************************************)
(* C23: parsing is total, terminating and lossless.                        *)
(*                                                                         *)
(* One record = one observed parse (source-file or REPL entry point) of    *)
(* one input: the lexer's tokens `toks`, the syntax tree's leaves in       *)
(* document order `leaves` (both <<kind, start, end>>), the syntax errors  *)
(* `errs` (<<start, end, isMissing>>), the number of tree nodes, and how   *)
(* the run ended (`done`, `panic`, `timeout`, `signal:n`).                 *)
(*                                                                         *)
(* (P) only - the recursive-descent parser is deliberately not             *)
(* transcribed (DESIGN.md C23); its expression core is specified in        *)
(* ExprGrammar.tla (C24).                                                  *)
(***************************************************************************)
EXTENDS Naturals, Sequences, FiniteSets, TLC, Json, IOUtils

Rec == ndJsonDeserialize(IOEnv.TRACE)
ExpectN == atoi(IOEnv.EXPECT_N)
WorkK == 12          \* generous constant separating linear from divergent work
VARIABLE i
vars == <<i>>

Terminates(r) == r.outcome = "done"

(* the tree's text is the input: its leaves are exactly the tokens, in order *)
Lossless(r) ==
    /\ r.root_text_ok
    /\ IF "toks" \in DOMAIN r THEN r.leaves = r.toks ELSE r.leaves_eq_tokens
    /\ r.nleaves = r.ntok

(* every error location lies within the input.  A "missing" error is a point (its offset);
   the others are ranges *)
ErrorsInRange(r) ==
    \A k \in 1..Len(r.errs) :
        LET e == r.errs[k] IN
        IF e[3] THEN e[1] <= r.len
        ELSE e[1] <= e[2] /\ e[2] <= r.len

(* roughly linear: produced nodes + errors bounded by a constant times the token count,
   and the wall clock far below what a divergent loop reaches before it is killed *)
LinearWork(r) ==
    /\ r.nodes + r.nerr <= WorkK * (r.ntok + 2)
    /\ r.micros <= 3000000 + 3000 * r.ntok

Ok(r) == Terminates(r) /\ Lossless(r) /\ ErrorsInRange(r) /\ LinearWork(r)

Why(r) == IF ~Terminates(r) THEN r.outcome
          ELSE IF ~Lossless(r) THEN "tree text differs from the input"
          ELSE IF ~ErrorsInRange(r) THEN "syntax error outside the input"
          ELSE "work not linear in the input"

Init == i = 0
Next == i < Len(Rec) /\ i' = i + 1
Spec == Init /\ [][Next]_vars

Checked == i > 0 => (Ok(Rec[i]) \/ PrintT("BAD " \o ToJson([idx |-> i, why |-> Why(Rec[i])])))

(* completeness: the enumerated space is covered, both entry points *)
Complete ==
    /\ TLCGet("distinct") = Len(Rec) + 1
    /\ ExpectN > 0 =>
         /\ Cardinality({Rec[k].idx : k \in 1..Len(Rec)}) = ExpectN
         /\ \A k \in 1..Len(Rec) : Rec[k].idx \in 0..(ExpectN - 1)
================================================================================
