SPECIFICATION Spec
CONSTANTS
  MaxLen = 7
  MaxDepth = 3
  MaxRefs = 2
  Emit = TRUE
INVARIANTS ScopesEnd Innermost Emitted
CHECK_DEADLOCK FALSE
