SPECIFICATION Spec
CONSTANTS
  MaxLen = 7
  MaxDepth = 3
  MaxDefers = 2
  MaxJumps = 2
  Emit = TRUE
INVARIANTS AtMostReached LIFOWithinBlock TopLevelRunOnce Emitted
CONSTRAINT Constr
CHECK_DEADLOCK FALSE
