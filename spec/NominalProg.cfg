SPECIFICATION Spec
INVARIANTS NominalLaw Emitted
CHECK_DEADLOCK FALSE
