SPECIFICATION MSpec
CONSTANTS
  FixDigitRule = TRUE
  FixDotToDash = TRUE
  FixSrcSkip = TRUE
INVARIANT Injective
CHECK_DEADLOCK FALSE
