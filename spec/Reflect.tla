---------------------------------- MODULE Reflect ----------------------------------
(***************************************************************************)
(* C18: run-time reflection and type values describe the code actually      *)
(* generated.                                                               *)
(*                                                                         *)
(* For every type of the universe RU the specification prescribes what      *)
(* core.meta must report, from the representation rules of Layout.tla       *)
(* (validated against the code generator's own layout tables by C17):       *)
(*   size_of / align_of / stride_of;                                        *)
(*   Int: bit width, signedness   Float: bit width                          *)
(*   Array: length, element (size, align)   Slice / Pointer / Distinct:     *)
(*   sub type (size, align), pointer mutability                             *)
(*   Struct: per member name, (size, align) of its type, offset             *)
(*   Enum: per variant (size, align) of its payload and its discriminant;   *)
(*   discriminant_offset   Optional: sub type, is_non_zero, tag offset      *)
(*   Error_Union: error and payload types, tag offset                       *)
(* and the address arithmetic on real values that must agree with it:       *)
(*   addr(v.member_i) - addr(v) = offset_i;  addr(a[1]) - addr(a[0]) =      *)
(*   stride of the element.                                                 *)
(* Type values: Ti == Tj  <=>  i = j  over the (pairwise different) types   *)
(* of the universe; an `any` made from a value of type T carries T.         *)
(***************************************************************************)
EXTENDS Ty, Integers, TLC, Json

L == INSTANCE Layout WITH i <- 0
MSize(t) == L!MSize(t)
MAlign(t) == L!MAlign(t)
MStride(t) == L!MStride(t)
MOffsets(t) == L!MOffsets(t)
MTag(t) == L!MTag(t)
Named(ms) == L!Named(ms)
EnumOf(u, ms) == L!EnumOf(u, ms)

VARIABLE k
SA == AnonStruct(Named(<<U8, I64>>))      SB == AnonStruct(Named(<<I32, U8>>))
SC == AnonStruct(Named(<<Str, Bool>>))    SD == AnonStruct(Named(<<U8, U8, U8>>))
SE == AnonStruct(Named(<<F64, F32>>))     SN == AnonStruct(Named(<<SA, U8>>))
SF == AnonStruct(Named(<<I64, U8>>))
SO == AnonStruct(Named(<<U8, Opt(U16)>>))
EA == EnumOf(81, <<Void, U8>>)            EB == EnumOf(82, <<U8, I64>>)
EC == EnumOf(83, <<SF, Arr(12, U8)>>)     ED == EnumOf(84, <<Void, Void, Void>>)
RU == <<I8, I16, I32, I64, U8, U16, U32, U64, ISize, USize, F32, F64, Bool, Char, Str,
        Ptr(FALSE, I32), Ptr(TRUE, I32), Ptr(FALSE, SB), Slice(U8), Slice(SB),
        Arr(3, U16), Arr(2, SB), Arr(0, I32), Arr(4, Opt(I32)),
        SA, SB, SC, SD, SE, SN, SF,
        EA, EB, EC, ED,
        \* optionals nested in optionals (directly, through an array, through a struct member):
        \* the outer one's record must not be confused with the inner one's
        Opt(Opt(U32)), Opt(Arr(2, Opt(I16))), Opt(SO), SO, Opt(U32), Opt(I16), Opt(U16),
        EU(Str, Opt(U8)), EnumOf(85, <<Opt(I32), Opt(F64)>>),
        Opt(U8), Opt(I64), Opt(Ptr(FALSE, I32)), Opt(SF), Opt(Str),
        EU(Str, I32), EU(SD, I64),
        Distinct(901, U16), Distinct(902, SB), Distinct(903, Opt(I32))>>

Brief(t) == [size |-> MSize(t), align |-> MAlign(t)]
IsNonZero(t) == L!IsNonZero(t)
Info(t) ==
    CASE t.k = "int" -> [kind |-> "Int", bits |-> (IF t.w = 255 THEN L!PtrBits ELSE t.w), signed |-> t.s]
      [] t.k = "float" -> [kind |-> "Float", bits |-> t.w]
      [] t.k = "bool" -> [kind |-> "Bool"]
      [] t.k = "char" -> [kind |-> "Char"]
      [] t.k = "str" -> [kind |-> "String"]
      [] t.k = "arr" -> [kind |-> "Array", len |-> t.n, sub |-> Brief(t.sub)]
      [] t.k = "slice" -> [kind |-> "Slice", sub |-> Brief(t.sub)]
      [] t.k = "ptr" -> [kind |-> "Pointer", sub |-> Brief(t.sub), mutable |-> t.m]
      [] t.k = "distinct" -> [kind |-> "Distinct", sub |-> Brief(t.sub)]
      [] t.k \in {"struct", "anonstruct"} ->
            [kind |-> "Struct",
             members |-> [j \in 1..Len(t.ms) |-> [name |-> t.ms[j][1], ty |-> Brief(t.ms[j][2]), offset |-> MOffsets(t)[j]]]]
      [] t.k = "enum" ->
            [kind |-> "Enum", tag |-> MTag(t),
             variants |-> [j \in 1..Len(t.vs) |-> [sub |-> Brief(t.vs[j].sub), discriminant |-> t.vs[j].d]]]
      [] t.k = "opt" -> [kind |-> "Optional", sub |-> Brief(t.sub), nonzero |-> IsNonZero(t.sub),
                         tag |-> (IF IsNonZero(t.sub) THEN 0 ELSE MTag(t))]
      [] t.k = "eu" -> [kind |-> "Error_Union", err |-> Brief(t.err), ok |-> Brief(t.ok), tag |-> MTag(t)]
(* what address arithmetic on a value of type t must show *)
Addr(t) ==
    CASE t.k \in {"struct", "anonstruct"} -> MOffsets(t)
      [] t.k = "arr" /\ t.n >= 2 -> <<MStride(t.sub)>>
      [] OTHER -> <<>>
Describe(j) == LET t == RU[j] IN
    [idx |-> j, t |-> t, size |-> MSize(t), align |-> MAlign(t), stride |-> MStride(t), info |-> Info(t), addr |-> Addr(t)]

Init == k = 0
Next == k < Len(RU) /\ k' = k + 1
Spec == Init /\ [][Next]_k
(* the universe is pairwise different, so the prescribed equality matrix is the identity *)
AllDifferent == \A a, b \in 1..Len(RU) : a # b => RU[a] # RU[b]
(* what reflection reports is consistent with the representation rules *)
Consistent == k > 0 =>
    LET d == Describe(k) IN
    /\ d.stride % d.align = 0 /\ d.stride >= d.size /\ d.stride < d.size + d.align
    /\ (d.info.kind = "Struct" => \A j \in 1..Len(d.info.members) :
            d.info.members[j].offset % d.info.members[j].ty.align = 0
            /\ d.info.members[j].offset + d.info.members[j].ty.size <= d.size)
Emitted == k > 0 => PrintT("CASE " \o ToJson(Describe(k)))
================================================================================
