SPECIFICATION Spec
INVARIANTS Reported ContractInvariants
CHECK_DEADLOCK FALSE
