------------------------------ MODULE TraceLiterals ------------------------------
(* C09, implementation -> specification: one record per literal use the real compiler was given:
   [c |-> case, obs |-> [acc, o, sz, sg]]; accepted iff Literals!HoldsAny(c, obs). *)
EXTENDS Literals, Json, IOUtils, FiniteSets
Rec == ndJsonDeserialize(IOEnv.TRACE)
VARIABLE i
Init == i = 0
Next == i < Len(Rec) /\ i' = i + 1
Spec == Init /\ [][Next]_i
Want(c) == CASE c.k = "int" -> [accept |-> Accept(c), value |-> Value(c.sp)]
             [] c.k \in {"char", "str"} -> [accept |-> TextValid(c.ps), value |-> TextValue(c.ps)]
             [] c.k = "float" -> [accept |-> TRUE, value |-> FloatValue(c)]
Checked == i > 0 => (HoldsAny(Rec[i].c, Rec[i].obs)
                     \/ PrintT("BAD " \o ToJson([idx |-> i, want |-> Want(Rec[i].c)])))
Complete == TLCGet("distinct") = Len(Rec) + 1
================================================================================
