SPECIFICATION MSpec
CONSTANTS
  Items = {1,2,3}
  MaxRounds = 6
  EmitReplay = TRUE
VIEW View
INVARIANTS CountersExact NoDupKeys POfferedExactlyReady PCycleOnlyIfAllBlocked PWaitsArePending PDoneNotPending PNeverOfferDone PDrains
PROPERTY PSpec
CHECK_DEADLOCK FALSE
