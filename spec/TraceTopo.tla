--------------------------------- MODULE TraceTopo ---------------------------------
(***************************************************************************)
(* C26, implementation -> specification: histories of the REAL inference    *)
(* scheduler (hir_ty::InferenceCtx::finish, recorded by the cfg(capy_verif) *)
(* hook hir_ty::verif_trace at the points where the schedule changes) are   *)
(* validated against the scheduling contract TopoSched.tla.                 *)
(*                                                                         *)
(* A record is one compilation: [n |-> number of items, ev |-> events]      *)
(*   [t |-> "seed", s |-> items]      everything registered at the start    *)
(*   [t |-> "round", cyc, s]          what a round offered                  *)
(*   [t |-> "done", i]  [t |-> "deps", i, s]   outcome for an offered item  *)
(* It is accepted iff every event is the corresponding action of TopoSched  *)
(* (a round must offer exactly what StartRound prescribes: the ready items, *)
(* or everything with the cycle flag when nothing is ready), and - if the   *)
(* compilation ran to the end of inference - the schedule is empty.         *)
(***************************************************************************)
EXTENDS Naturals, Sequences, FiniteSets, TLC, Json, IOUtils

Rec == ndJsonDeserialize(IOEnv.TRACE)
MaxN == LET S == {Rec[j].n : j \in 1..Len(Rec)} IN CHOOSE m \in S : \A x \in S : x <= m
TraceItems == 1..MaxN

VARIABLES pend, waits, done, offered, cyc, todo, round, k, pos, bad
T == INSTANCE TopoSched WITH Items <- TraceItems
tvars == <<pend, waits, done, offered, cyc, todo, round, k, pos, bad>>
ToSet(s) == {s[j] : j \in 1..Len(s)}

Fresh(S) == /\ pend' = S /\ waits' = [i \in TraceItems |-> {}] /\ done' = {} /\ offered' = {}
            /\ cyc' = FALSE /\ todo' = {} /\ round' = 0
Init == /\ k = 0 /\ pos = 0 /\ bad = FALSE
        /\ pend = {} /\ waits = [i \in TraceItems |-> {}] /\ done = {} /\ offered = {}
        /\ cyc = FALSE /\ todo = {} /\ round = 0
Cur == Rec[IF k = 0 THEN 1 ELSE k]
Ev == Cur.ev[pos + 1]
Consume(e) ==
    CASE e.t = "round" -> T!StartRound /\ offered' = ToSet(e.s) /\ cyc' = e.cyc
      [] e.t = "done" -> T!Complete(e.i)
      [] e.t = "deps" -> T!Register(e.i, ToSet(e.s))
      [] OTHER -> FALSE
Step == /\ k > 0 /\ ~bad /\ pos < Len(Cur.ev)
        /\ \/ (Consume(Ev) /\ pos' = pos + 1 /\ UNCHANGED <<k, bad>>)
           \/ (~ENABLED Consume(Ev) /\ bad' = TRUE
                 /\ UNCHANGED <<pend, waits, done, offered, cyc, todo, round, k, pos>>)
NextRecord == /\ (k = 0 \/ bad \/ pos = Len(Cur.ev)) /\ k < Len(Rec)
              /\ k' = k + 1 /\ pos' = 1 /\ bad' = FALSE        \* event 1 is the seed
              /\ Fresh(ToSet(Rec[k + 1].ev[1].s))
Next == Step \/ NextRecord
Spec == Init /\ [][Next]_tvars

Finished == k > 0 /\ ~bad /\ pos = Len(Cur.ev)
Reported ==
    /\ (bad => PrintT("BAD " \o ToJson([idx |-> k, at |-> pos + 1, ready |-> T!Ready, pending |-> pend,
                                        why |-> "event is not the scheduling contract's action"])))
    /\ ((Finished /\ Cur.complete) => (pend = {} \/ PrintT("BAD " \o ToJson([idx |-> k, at |-> pos, ready |-> T!Ready, pending |-> pend,
                                        why |-> "inference ended with pending items"]))))
ContractInvariants == T!WaitsArePending /\ T!DoneNotPending /\ T!OfferedExactlyReady /\ T!CycleOnlyIfAllBlocked
================================================================================
