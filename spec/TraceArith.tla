-------------------------------- MODULE TraceArith --------------------------------
(***************************************************************************)
(* C08, implementation -> specification: every record is one operation the  *)
(* real compiler compiled and the real executable (or the compiler's JIT,   *)
(* for comptime) evaluated:  [c |-> case, o |-> observed bytes, m |-> mode] *)
(* It is accepted iff Arith!Holds(c, o).                                    *)
(***************************************************************************)
EXTENDS Arith, Json, IOUtils, FiniteSets

Rec == ndJsonDeserialize(IOEnv.TRACE)

VARIABLE i
Init == i = 0
Next == i < Len(Rec) /\ i' = i + 1
Spec == Init /\ [][Next]_i

Checked == i > 0 => (Holds(Rec[i].c, Rec[i].o)
                     \/ PrintT("BAD " \o ToJson([idx |-> i, want |-> Result(Rec[i].c)])))
Complete == TLCGet("distinct") = Len(Rec) + 1
================================================================================
