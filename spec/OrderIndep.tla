-------------------------------- MODULE OrderIndep --------------------------------
(***************************************************************************)
(* C20: results do not depend on the order of definitions or files.         *)
(*                                                                         *)
(* An abstract program is a set of global definitions with their mutual     *)
(* references.  A textual arrangement of it chooses an order for the         *)
(* definitions and a partition into files (references across files go       *)
(* through imports).  Every arrangement is compiled and run; a record is     *)
(*   [input |-> the abstract program, variant |-> the arrangement,          *)
(*    obj |-> hash of (accepted, what the executable printed, exit status), *)
(*    diag |-> hash of the multiset of diagnostic kinds]                    *)
(* The history machine is Repro.tla's: an input keeps the outcome of its    *)
(* first arrangement; a record that contradicts it is not a behaviour.      *)
(***************************************************************************)
EXTENDS Repro
================================================================================
