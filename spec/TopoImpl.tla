------------------------------- MODULE TopoImpl --------------------------------
(***************************************************************************)
(* (M) crates/topo/src/lib.rs as it is coded, driven the way               *)
(* hir_ty::InferenceCtx::finish drives it:                                 *)
(*   extend(sorted seed); loop { peek_all | peek_all_cyclic ; for each     *)
(*   leaf: remove(leaf) | insert_deps(leaf, deps) }.                       *)
(* `top` is the IndexMap's key sequence (insertion order, shift_remove),   *)
(* nchild the counters, parents the parent sets.                           *)
(* Refinement: this module implements TopoSched under the mapping at the   *)
(* bottom.  `hist` records the calls made and what (P) expects to be       *)
(* observed after each, for replay against the real TopoSort.              *)
(***************************************************************************)
EXTENDS Naturals, Sequences, FiniteSets, TLC, Json

CONSTANTS Items, MaxRounds, EmitReplay

VARIABLES top, nchild, parents, leaves, moffered, mcyc, mdone, mround, hist

mvars == <<top, nchild, parents, leaves, moffered, mcyc, mdone, mround>>
allvars == <<top, nchild, parents, leaves, moffered, mcyc, mdone, mround, hist>>

Keys == {top[k] : k \in 1..Len(top)}
RECURSIVE SortedSeq(_)
SortedSeq(S) == IF S = {} THEN <<>>
                ELSE LET m == CHOOSE x \in S : \A y \in S : x <= y
                     IN <<m>> \o SortedSeq(S \ {m})

RemoveKey(seq, x) == SelectSeq(seq, LAMBDA y : y # x)

(* TopoSort::insert_dep(parent, child) on a state record *)
InsertDep(st, parent, child) ==
    LET keys == {st.top[k] : k \in 1..Len(st.top)}
        s1 == IF child \notin keys
              THEN [top |-> Append(st.top, child),
                    nchild |-> [st.nchild EXCEPT ![child] = 0],
                    parents |-> [st.parents EXCEPT ![child] = {parent}],
                    ret |-> FALSE]
              ELSE IF parent \in st.parents[child]
                   THEN [st EXCEPT !.ret = TRUE]          \* "Already registered": early return
                   ELSE [top |-> st.top, nchild |-> st.nchild,
                         parents |-> [st.parents EXCEPT ![child] = @ \cup {parent}],
                         ret |-> FALSE]
    IN IF s1.ret THEN [st EXCEPT !.ret = FALSE]
       ELSE LET keys1 == {s1.top[k] : k \in 1..Len(s1.top)}
            IN IF parent \notin keys1
               THEN [top |-> Append(s1.top, parent),
                     nchild |-> [s1.nchild EXCEPT ![parent] = 1],
                     parents |-> [s1.parents EXCEPT ![parent] = {}],
                     ret |-> FALSE]
               ELSE [s1 EXCEPT !.nchild[parent] = @ + 1]

RECURSIVE InsertDeps(_, _, _)
InsertDeps(st, parent, dseq) ==
    IF dseq = <<>> THEN st
    ELSE InsertDeps(InsertDep(st, parent, Head(dseq)), parent, Tail(dseq))

(* TopoSort::remove(child): shift_remove, then decrement the parents still present *)
RemoveItem(child) ==
    LET ntop == RemoveKey(top, child)
        nkeys == {ntop[k] : k \in 1..Len(ntop)}
    IN /\ top' = ntop
       /\ nchild' = [k \in Items |->
                       IF k = child THEN 0
                       ELSE IF k \in parents[child] /\ k \in nkeys THEN nchild[k] - 1
                       ELSE nchild[k]]
       /\ parents' = [parents EXCEPT ![child] = {}]

PeekAll == SelectSeq(top, LAMBDA k : nchild[k] = 0)
InCycle == top # <<>> /\ \A k \in Keys : nchild[k] # 0

Obs(t, nc) == [len |-> Len(t)]

MInit == /\ \E S \in (SUBSET Items) \ {{}} :
              /\ top = SortedSeq(S)
              /\ hist = <<[op |-> "seed", items |-> SortedSeq(S)]>>
         /\ nchild = [k \in Items |-> 0]
         /\ parents = [k \in Items |-> {}]
         /\ leaves = <<>>
         /\ moffered = {}
         /\ mcyc = FALSE
         /\ mdone = {}
         /\ mround = 0

MStartRound ==
    /\ leaves = <<>>
    /\ top # <<>>
    /\ mround < MaxRounds
    /\ LET pk == PeekAll
           lv == IF pk # <<>> THEN pk ELSE SortedSeq(Keys)   \* finish() sorts the cyclic list
       IN /\ leaves' = lv
          /\ moffered' = {lv[k] : k \in 1..Len(lv)}
          /\ mcyc' = (pk = <<>>)
          /\ hist' = Append(hist, [op |-> "round", order |-> lv, cyc |-> (pk = <<>>),
                                   incycle |-> InCycle])
    /\ mround' = mround + 1
    /\ UNCHANGED <<top, nchild, parents, mdone>>

MComplete ==
    /\ leaves # <<>>
    /\ LET i == Head(leaves) IN
         /\ RemoveItem(i)
         /\ mdone' = mdone \cup {i}
         /\ hist' = Append(hist, [op |-> "done", i |-> i, len |-> Len(top) - 1])
    /\ leaves' = Tail(leaves)
    /\ UNCHANGED <<moffered, mcyc, mround>>

MRegister(D) ==
    /\ leaves # <<>>
    /\ D # {}
    /\ D \subseteq Items \ mdone
    /\ LET i == Head(leaves)
           st == InsertDeps([top |-> top, nchild |-> nchild, parents |-> parents, ret |-> FALSE],
                            i, SortedSeq(D))
       IN /\ top' = st.top
          /\ nchild' = st.nchild
          /\ parents' = st.parents
          /\ hist' = Append(hist, [op |-> "deps", i |-> i, d |-> SortedSeq(D),
                                   len |-> Len(st.top)])
    /\ leaves' = Tail(leaves)
    /\ UNCHANGED <<moffered, mcyc, mdone, mround>>

MNext0 == \/ MStartRound
          \/ MComplete
          \/ \E D \in SUBSET Items : MRegister(D)

(* every transition is printed (with a concrete history leading to it) when  *)
(* EmitReplay is on; hist is hidden from the state by the VIEW               *)
MNext == MNext0 /\ (EmitReplay => PrintT("REPLAY " \o ToJson(hist')))

MSpec == MInit /\ [][MNext]_allvars

View == mvars

--------------------------------------------------------------------------------
(* invariants of the implementation under the protocol *)
CountersExact ==
    \A k \in Keys : nchild[k] = Cardinality({c \in Keys : k \in parents[c]})
NoDupKeys == Cardinality(Keys) = Len(top)

--------------------------------------------------------------------------------
(* refinement mapping to (P) *)
P == INSTANCE TopoSched WITH
        pend    <- Keys,
        waits   <- [i \in Items |-> IF i \in Keys THEN {c \in Keys : i \in parents[c]} ELSE {}],
        done    <- mdone,
        offered <- moffered,
        cyc     <- mcyc,
        todo    <- {leaves[k] : k \in 1..Len(leaves)},
        round   <- mround

PSpec == P!Spec
POfferedExactlyReady == P!OfferedExactlyReady
PCycleOnlyIfAllBlocked == P!CycleOnlyIfAllBlocked
PWaitsArePending == P!WaitsArePending
PDoneNotPending == P!DoneNotPending
PNeverOfferDone == P!NeverOfferDone
PDrains == P!DrainsWhenAllComplete
================================================================================
