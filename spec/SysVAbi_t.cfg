SPECIFICATION Spec
CONSTANTS
  MaxParams = 8
  PoolSize = 35
INVARIANTS RegsOk
VIEW View
CHECK_DEADLOCK FALSE
