SPECIFICATION Spec
CONSTANTS
  MaxParams = 8
  PoolSize = 33
INVARIANTS RegsOk
VIEW View
CHECK_DEADLOCK FALSE
