--------------------------------- MODULE CapySem ---------------------------------
(***************************************************************************)
(* C01: a reference semantics for the supported fragment of Capy, written   *)
(* as a definitional interpreter over JSON abstract syntax (the interchange *)
(* format "CIR" of the conformance harness).                                *)
(*                                                                         *)
(* Values:  [t |-> "int", w, s, b]  machine integer, b little-endian bytes  *)
(*          [t |-> "bool", v]   [t |-> "void"]                              *)
(*          [t |-> "arr", es]   [t |-> "rec", ns, vs]  (by value)           *)
(*          [t |-> "sum", k, p]  optional / enum value: current variant k   *)
(*          (optional: 1 = payload, 2 = nil; error union: 1 = value,        *)
(*          2 = error) and its payload p                                    *)
(*          [t |-> "ptr", d, l]  pointer: frame number d (1 = main) and a   *)
(*          place l (variable / field / element with a numeric index) in    *)
(*          that frame; ^ and ^mut pointers are the same value (mutability  *)
(*          is a static matter, C14)                                        *)
(*          [t |-> "fn", f]  function value (the function's name)           *)
(*          [t |-> "slice", d, l, n]  slice: the array place it references  *)
(*          (like a pointer) and its length                                 *)
(* State:   [env |-> stack of scopes of the running function (innermost     *)
(*           last; a scope is a pair of sequences names / values),          *)
(*           stack |-> the environments of the suspended callers (outermost *)
(*           first), out |-> printed byte strings,                          *)
(*           fuel |-> remaining loop iterations and calls,                  *)
(*           glob |-> the scope of the program's global constants]          *)
(* Result:  [v, st, sig, lab] with sig in                                   *)
(*          norm | brk | cont | ret | fault | nofuel                        *)
(*                                                                         *)
(* Decisions (see DESIGN.md section 4 C01): wrapping arithmetic; && and ||  *)
(* short-circuit; operands, arguments, array items and struct fields are    *)
(* evaluated left to right (the generator only emits programs whose result  *)
(* does not depend on it); aggregates are copied on assignment and on       *)
(* argument passing; an unlabeled break leaves the nearest loop or labeled  *)
(* block, continue the nearest loop, return the function; a block's value   *)
(* is its tail expression or the value of the break that left it; a defer   *)
(* runs when its block is left, last registered first, on every kind of     *)
(* exit except a fault (which ends the program: message, status 1).         *)
(***************************************************************************)
EXTENDS BV, Integers, Sequences, TLC

Void == [t |-> "void"]
IntV(w, s, b) == [t |-> "int", w |-> w, s |-> s, b |-> b]
BoolV(x) == [t |-> "bool", v |-> x]
R(v, st, sig, lab) == [v |-> v, st |-> st, sig |-> sig, lab |-> lab]
Norm(v, st) == R(v, st, "norm", "")
Fault(st, why) == R([t |-> "fault", why |-> why], st, "fault", "")

(* ------------------------------------------------------------ environments *)
EmptyScope == [ns |-> <<>>, vs |-> <<>>]
RECURSIVE PosIn(_, _, _)
PosIn(ns, n, k) == IF k = 0 THEN 0 ELSE IF ns[k] = n THEN k ELSE PosIn(ns, n, k - 1)   \* last binding wins
Has(sc, n) == PosIn(sc.ns, n, Len(sc.ns)) # 0
Get(sc, n) == sc.vs[PosIn(sc.ns, n, Len(sc.ns))]
Bind(sc, n, v) == [ns |-> Append(sc.ns, n), vs |-> Append(sc.vs, v)]
Put(sc, n, v) == [sc EXCEPT !.vs[PosIn(sc.ns, n, Len(sc.ns))] = v]
RECURSIVE ScopeOf(_, _, _)
ScopeOf(env, n, k) == IF k = 0 THEN 0 ELSE IF Has(env[k], n) THEN k ELSE ScopeOf(env, n, k - 1)
Lookup(env, n) == Get(env[ScopeOf(env, n, Len(env))], n)
Update(env, n, v) == LET k == ScopeOf(env, n, Len(env)) IN [env EXCEPT ![k] = Put(env[k], n, v)]
Declare(env, n, v) == [env EXCEPT ![Len(env)] = Bind(env[Len(env)], n, v)]
(* frames: the running function is frame Len(st.stack) + 1 *)
Depth(st) == Len(st.stack) + 1
EnvAt(st, d) == IF d = Depth(st) THEN st.env ELSE st.stack[d]
SetEnvAt(st, d, env) == IF d = Depth(st) THEN [st EXCEPT !.env = env] ELSE [st EXCEPT !.stack[d] = env]

(* -------------------------------------------------------------- arithmetic *)
IntBin(op, a, b) ==
    LET sg == a.s IN
    CASE op = "add" -> IntV(a.w, sg, Add(a.b, b.b))
      [] op = "sub" -> IntV(a.w, sg, Sub(a.b, b.b))
      [] op = "mul" -> IntV(a.w, sg, Mul(a.b, b.b))
      [] op = "and" -> IntV(a.w, sg, And(a.b, b.b))
      [] op = "or" -> IntV(a.w, sg, Or(a.b, b.b))
      [] op = "xor" -> IntV(a.w, sg, Xor(a.b, b.b))
      [] op = "shl" -> IntV(a.w, sg, Shl(a.b, ToNat(b.b)))
      [] op = "shr" -> IntV(a.w, sg, Shr(a.b, ToNat(b.b), sg))
      [] op = "lt" -> BoolV(Lt(a.b, b.b, sg))
      [] op = "le" -> BoolV(Le(a.b, b.b, sg))
      [] op = "gt" -> BoolV(Lt(b.b, a.b, sg))
      [] op = "ge" -> BoolV(Le(b.b, a.b, sg))
      [] op = "eq" -> BoolV(a.b = b.b)
      [] op = "ne" -> BoolV(a.b # b.b)
BoolBin(op, a, b) ==
    CASE op = "eq" -> BoolV(a.v = b.v) [] op = "ne" -> BoolV(a.v # b.v)
      [] op = "and" -> BoolV(a.v /\ b.v) [] op = "or" -> BoolV(a.v \/ b.v) [] op = "xor" -> BoolV(a.v # b.v)
(* == and != on arrays and structs compare the values member by member (here: TLA+ equality of
   the value terms, which is exactly that) *)
AggBin(op, a, b) == CASE op = "eq" -> BoolV(a = b) [] op = "ne" -> BoolV(a # b)
Bin(op, a, b) == IF a.t = "int" THEN IntBin(op, a, b)
                 ELSE IF a.t = "bool" THEN BoolBin(op, a, b) ELSE AggBin(op, a, b)
Un(op, a) == CASE op = "neg" -> IntV(a.w, a.s, Neg(a.b))
               [] op = "bnot" -> IntV(a.w, a.s, Not(a.b))
               [] op = "not" -> BoolV(~a.v)
Cast(ty, a) == IF a.t = "bool" THEN IntV(ty.w, ty.s, FromNat(IF a.v THEN 1 ELSE 0, ty.w))
               ELSE IntV(ty.w, ty.s, Resize(a.b, ty.w, a.s))
FieldPos(r, f) == PosIn(r.ns, f, Len(r.ns))
(* a cast between aggregate types converts member by member: a struct member is taken from the
   source member of the SAME NAME (the declaration orders may differ), array elements by position.
   td: [k |-> "int", w, s] | [k |-> "bool"] | [k |-> "rec", ns, ts] | [k |-> "arr", t] *)
RECURSIVE Conv(_, _)
Conv(td, v) ==
    CASE td.k = "int" -> Cast(td, v)
      [] td.k = "bool" -> v
      [] td.k = "rec" -> [t |-> "rec", ns |-> td.ns,
                          vs |-> [j \in 1..Len(td.ns) |-> Conv(td.ts[j], v.vs[FieldPos(v, td.ns[j])])]]
      [] td.k = "arr" -> [t |-> "arr", es |-> [j \in 1..Len(v.es) |-> Conv(td.t, v.es[j])]]

(* the value of `x : T;` - td as for Conv, plus [k |-> "opt"] (nil) *)
RECURSIVE DefaultOf(_)
DefaultOf(td) ==
    CASE td.k = "int" -> IntV(td.w, td.s, [j \in 1..td.w |-> 0])
      [] td.k = "bool" -> BoolV(FALSE)
      [] td.k = "opt" -> [t |-> "sum", k |-> 2, p |-> Void]
      [] td.k = "rec" -> [t |-> "rec", ns |-> td.ns, vs |-> [j \in 1..Len(td.ns) |-> DefaultOf(td.ts[j])]]
      [] td.k = "arr" -> [t |-> "arr", es |-> [j \in 1..td.n |-> DefaultOf(td.t)]]

(* -------------------------------------------------------------- interpreter *)
RECURSIVE Eval(_, _, _), EvalList(_, _, _, _, _), Exec(_, _, _), ExecSeq(_, _, _, _, _),
          Block(_, _, _), Loop(_, _, _), RunDefers(_, _, _), Call(_, _, _, _), LRead(_, _), LWrite(_, _, _, _),
          Resolve(_, _, _)

(* evaluate a list of expressions left to right; result value is the sequence of values *)
EvalList(P, es, k, acc, st) ==
    IF k > Len(es) THEN Norm(acc, st)
    ELSE LET r == Eval(P, es[k], st) IN
         IF r.sig # "norm" THEN r ELSE EvalList(P, es, k + 1, Append(acc, r.v), r.st)

FnOf(P, name) == P.fns[CHOOSE k \in 1..Len(P.fns) : P.fns[k].name = name]

(* a function may have comptime parameters (C16): the call's comptime arguments - types and
   constants - are bound like ordinary immutable parameters, which is the beta-rule "a call behaves
   like a call of the copy in which the parameters are replaced by the arguments" *)
CParams(fn) == IF "cparams" \in DOMAIN fn THEN fn.cparams ELSE <<>>
Call(P, f, args, st) ==
    IF st.fuel = 0 THEN R(Void, st, "nofuel", "")
    ELSE LET fn == FnOf(P, f)
             all == CParams(fn) \o fn.params
             sc == [ns |-> [k \in 1..Len(all) |-> all[k].n], vs |-> args]
             inner == [st EXCEPT !.env = <<sc>>, !.stack = Append(st.stack, st.env), !.fuel = st.fuel - 1]
             r == Block(P, fn.body, inner)
             \* the caller's environment as the callee left it (it may have stored through pointers)
             back == [r.st EXCEPT !.env = r.st.stack[Len(r.st.stack)],
                                  !.stack = SubSeq(r.st.stack, 1, Len(r.st.stack) - 1)]
         IN IF r.sig \in {"fault", "nofuel"} THEN R(r.v, back, r.sig, "")
            ELSE Norm(r.v, back)          \* norm (tail value) or ret (returned value)

TyVar(e) == IF "tyv" \in DOMAIN e THEN e.tyv ELSE ""
TyOf(e, st) == IF TyVar(e) # "" THEN Lookup(st.env, TyVar(e)) ELSE e.ty      \* [w, s] either way
Eval(P, e, st) ==
    CASE e.e = "int" -> (IF TyVar(e) = "" THEN Norm(IntV(e.ty.w, e.ty.s, e.b), st)
                         ELSE LET ty == TyOf(e, st) IN Norm(IntV(ty.w, ty.s, FromNat(ToNat(e.b), ty.w)), st))
      [] e.e = "type" -> Norm([t |-> "type", w |-> e.ty.w, s |-> e.ty.s], st)
      [] e.e = "bool" -> Norm(BoolV(e.v), st)
      [] e.e = "none" -> Norm(Void, st)
      \* a name that no scope of the function binds is a global constant
      [] e.e = "var" -> Norm(IF ScopeOf(st.env, e.n, Len(st.env)) = 0 THEN Get(st.glob, e.n)
                             ELSE Lookup(st.env, e.n), st)
      [] e.e = "un" -> LET r == Eval(P, e.x, st) IN IF r.sig # "norm" THEN r ELSE Norm(Un(e.op, r.v), r.st)
      [] e.e = "cast" -> LET r == Eval(P, e.x, st) IN IF r.sig # "norm" THEN r ELSE Norm(Cast(TyOf(e, r.st), r.v), r.st)
      \* the value a declaration without initialiser gives: zero / false / nil, member by member
      [] e.e = "default" -> Norm(DefaultOf(e.td), st)
      [] e.e = "scast" -> LET r == Eval(P, e.x, st) IN IF r.sig # "norm" THEN r ELSE Norm(Conv(e.to, r.v), r.st)
      [] e.e = "bin" ->
            LET a == Eval(P, e.l, st) IN
            IF a.sig # "norm" THEN a
            ELSE IF e.op = "land" THEN (IF ~a.v.v THEN a ELSE Eval(P, e.r, a.st))
            ELSE IF e.op = "lor" THEN (IF a.v.v THEN a ELSE Eval(P, e.r, a.st))
            ELSE LET b == Eval(P, e.r, a.st) IN
                 IF b.sig # "norm" THEN b ELSE Norm(Bin(e.op, a.v, b.v), b.st)
      [] e.e = "call" ->
            LET as == EvalList(P, (IF "cargs" \in DOMAIN e THEN e.cargs ELSE <<>>) \o e.args, 1, <<>>, st) IN
            IF as.sig # "norm" THEN as ELSE Call(P, e.f, as.v, as.st)
      [] e.e = "arr" ->
            LET r == EvalList(P, e.es, 1, <<>>, st) IN
            IF r.sig # "norm" THEN r ELSE Norm([t |-> "arr", es |-> r.v], r.st)
      [] e.e = "rec" ->
            LET r == EvalList(P, [k \in 1..Len(e.fs) |-> e.fs[k].x], 1, <<>>, st) IN
            IF r.sig # "norm" THEN r
            ELSE Norm([t |-> "rec", ns |-> [k \in 1..Len(e.fs) |-> e.fs[k].n], vs |-> r.v], r.st)
      [] e.e = "idx" ->
            LET a == Eval(P, e.a, st) IN
            IF a.sig # "norm" THEN a
            ELSE LET i == Eval(P, e.i, a.st) IN
                 IF i.sig # "norm" THEN i
                 ELSE IF a.v.t = "slice"
                      THEN (IF ~FitsNat(i.v.b) \/ ToNat(i.v.b) >= a.v.n THEN Fault(i.st, "index out of bounds")
                            ELSE Norm(LRead(a.v.l, EnvAt(i.st, a.v.d)).es[ToNat(i.v.b) + 1], i.st))
                 ELSE IF ~FitsNat(i.v.b) \/ ToNat(i.v.b) >= Len(a.v.es) THEN Fault(i.st, "index out of bounds")
                 ELSE Norm(a.v.es[ToNat(i.v.b) + 1], i.st)
      [] e.e = "fld" ->
            LET r == Eval(P, e.x, st) IN
            IF r.sig # "norm" THEN r ELSE Norm(r.v.vs[FieldPos(r.v, e.f)], r.st)
      [] e.e = "ifx" ->
            LET c == Eval(P, e.c, st) IN
            IF c.sig # "norm" THEN c ELSE IF c.v.v THEN Eval(P, e.t, c.st) ELSE Eval(P, e.f, c.st)
      [] e.e = "blk" -> Block(P, e, st)
      \* sum types: {e: variant, k, x} builds variant k with payload x ({e: none} for none);
      \* optionals use k = 1 (payload) and k = 2 (nil)
      [] e.e = "variant" -> LET r == Eval(P, e.x, st) IN
                            IF r.sig # "norm" THEN r ELSE Norm([t |-> "sum", k |-> e.k, p |-> r.v], r.st)
      [] e.e = "isvar" -> LET r == Eval(P, e.x, st) IN
                          IF r.sig # "norm" THEN r ELSE Norm(BoolV(r.v.k = e.k), r.st)
      [] e.e = "unwrap" -> LET r == Eval(P, e.x, st) IN
                           IF r.sig # "norm" THEN r
                           ELSE IF r.v.k # e.k THEN Fault(r.st, "unwrap") ELSE Norm(r.v.p, r.st)
      \* function values: a function's name; a call through one is a call of that function.
      \* (Local lambdas cannot capture anything: they are functions of the program like the others.)
      [] e.e = "fnref" -> Norm([t |-> "fn", f |-> e.f], st)
      [] e.e = "callv" ->
            LET f == Eval(P, e.x, st) IN
            IF f.sig # "norm" THEN f
            ELSE LET as == EvalList(P, e.args, 1, <<>>, f.st) IN
                 IF as.sig # "norm" THEN as ELSE Call(P, f.v.f, as.v, as.st)
      \* pointers: ^place / ^mut place is the place itself (frame + resolved place); p^ reads it
      [] e.e = "ref" -> LET p == Resolve(P, e.l, st) IN
                        IF p.sig # "norm" THEN p ELSE Norm([t |-> "ptr", d |-> p.v.d, l |-> p.v.l], p.st)
      [] e.e = "deref" -> LET r == Eval(P, e.x, st) IN
                          IF r.sig # "norm" THEN r ELSE Norm(LRead(r.v.l, EnvAt(r.st, r.v.d)), r.st)
      \* slices: an array place seen as (place, length); .len of a slice or an array (usize);
      \* [n]T.(slice) copies the referenced array
      [] e.e = "slice" -> LET p == Resolve(P, e.l, st) IN
                          IF p.sig # "norm" THEN p
                          ELSE Norm([t |-> "slice", d |-> p.v.d, l |-> p.v.l,
                                     n |-> Len(LRead(p.v.l, EnvAt(p.st, p.v.d)).es)], p.st)
      [] e.e = "len" -> LET r == Eval(P, e.x, st) IN
                        IF r.sig # "norm" THEN r
                        ELSE Norm(IntV(8, FALSE, FromNat(IF r.v.t = "slice" THEN r.v.n ELSE Len(r.v.es), 8)), r.st)
      [] e.e = "toarr" -> LET r == Eval(P, e.x, st) IN
                          IF r.sig # "norm" THEN r ELSE Norm(LRead(r.v.l, EnvAt(r.st, r.v.d)), r.st)
      \* x.try on an optional / error union (variant 1 = the value, 2 = nil / the error): the
      \* value, or leave the function with nil / with the same error
      [] e.e = "try" -> LET r == Eval(P, e.x, st) IN
                        IF r.sig # "norm" THEN r
                        ELSE IF r.v.k = 1 THEN Norm(r.v.p, r.st)
                        ELSE R([t |-> "sum", k |-> 2, p |-> r.v.p], r.st, "ret", "")

(* run the deferred statements ds (in registration order) last first; their own signals are not
   propagated (the generator only defers prints and assignments) *)
RunDefers(P, ds, st) ==
    IF ds = <<>> THEN st
    ELSE LET r == Exec(P, ds[Len(ds)], st) IN RunDefers(P, SubSeq(ds, 1, Len(ds) - 1), r.st)

(* statements k.. of a block; ds = defers registered so far in this block *)
ExecSeq(P, b, k, ds, st) ==
    IF k > Len(b.ss)
    THEN LET t == Eval(P, b.tail, st) IN [r |-> t, ds |-> ds]
    ELSE LET s == b.ss[k] IN
         IF s.s = "defer" THEN ExecSeq(P, b, k + 1, Append(ds, s.x), st)
         ELSE LET r == Exec(P, s, st) IN
              IF r.sig # "norm" THEN [r |-> r, ds |-> ds] ELSE ExecSeq(P, b, k + 1, ds, r.st)

Block(P, b, st) ==
    LET inner == [st EXCEPT !.env = Append(st.env, EmptyScope)]
        x == ExecSeq(P, b, 1, <<>>, inner)
        r == x.r
        after == IF r.sig \in {"fault", "nofuel"} THEN r.st ELSE RunDefers(P, x.ds, r.st)
        out == [after EXCEPT !.env = SubSeq(after.env, 1, Len(st.env))]
    IN \* a labeled block catches a break that names it, and an unlabeled one
       IF r.sig = "brk" /\ b.label # "" /\ r.lab \in {"", b.label} THEN Norm(r.v, out)
       ELSE R(r.v, out, r.sig, r.lab)

(* a loop: c = condition expression ({e: none} for `loop`), body = block *)
Loop(P, s, st) ==
    IF st.fuel = 0 THEN R(Void, st, "nofuel", "")
    ELSE LET c == IF s.c.e = "none" THEN Norm(BoolV(TRUE), st) ELSE Eval(P, s.c, st) IN
         IF c.sig # "norm" THEN c
         ELSE IF ~c.v.v THEN Norm(Void, c.st)
         ELSE LET r == Block(P, s.body, [c.st EXCEPT !.fuel = c.st.fuel - 1])
                  mine == r.lab = "" \/ r.lab = s.label
              IN IF r.sig = "norm" \/ (r.sig = "cont" /\ mine) THEN Loop(P, s, r.st)
                 ELSE IF r.sig = "brk" /\ mine THEN Norm(r.v, r.st)
                 ELSE r

LRead(l, env) ==
    CASE l.l = "var" -> Lookup(env, l.n)
      [] l.l = "idx" -> LRead(l.a, env).es[l.k + 1]
      [] l.l = "fld" -> LET r == LRead(l.x, env) IN r.vs[FieldPos(r, l.f)]
(* new value of the root variable of place l after storing v into it; indices were evaluated to
   naturals (l.k) beforehand *)
LWrite(l, v, env, dummy) ==
    CASE l.l = "var" -> [n |-> l.n, v |-> v]
      [] l.l = "idx" -> LET old == LRead(l.a, env) IN
                        LWrite(l.a, [old EXCEPT !.es[l.k + 1] = v], env, dummy)
      [] l.l = "fld" -> LET old == LRead(l.x, env) IN
                        LWrite(l.x, [old EXCEPT !.vs[FieldPos(old, l.f)] = v], env, dummy)

(* evaluate the index and pointer expressions of a place (left to right, outermost first as
   written), checking bounds against the current value; returns [d |-> frame, l |-> the place with
   numeric indices] or a fault.  A place that starts with a dereference (p^, p.f, p[i]) is the
   pointer's place, in the pointer's frame. *)
Resolve(P, l, st) ==
    CASE l.l = "var" -> Norm([d |-> Depth(st), l |-> [l |-> "var", n |-> l.n]], st)
      [] l.l = "deref" -> LET r == Eval(P, l.p, st) IN
                          IF r.sig # "norm" THEN r ELSE Norm([d |-> r.v.d, l |-> r.v.l], r.st)
      [] l.l = "fld" -> LET r == Resolve(P, l.x, st) IN
                        IF r.sig # "norm" THEN r
                        ELSE Norm([d |-> r.v.d, l |-> [l |-> "fld", x |-> r.v.l, f |-> l.f]], r.st)
      [] l.l = "idx" ->
            LET a == Resolve(P, l.a, st) IN
            IF a.sig # "norm" THEN a
            ELSE LET i == Eval(P, l.i, a.st) IN
                 IF i.sig # "norm" THEN i
                 ELSE LET arr == LRead(a.v.l, EnvAt(i.st, a.v.d)) IN
                      IF arr.t = "slice"       \* an element of what the slice references
                      THEN (IF ~FitsNat(i.v.b) \/ ToNat(i.v.b) >= arr.n THEN Fault(i.st, "index out of bounds")
                            ELSE Norm([d |-> arr.d, l |-> [l |-> "idx", a |-> arr.l, k |-> ToNat(i.v.b)]], i.st))
                      ELSE IF ~FitsNat(i.v.b) \/ ToNat(i.v.b) >= Len(arr.es) THEN Fault(i.st, "index out of bounds")
                      ELSE Norm([d |-> a.v.d, l |-> [l |-> "idx", a |-> a.v.l, k |-> ToNat(i.v.b)]], i.st)

Exec(P, s, st) ==
    CASE s.s = "let" -> LET r == Eval(P, s.x, st) IN
                        IF r.sig # "norm" THEN r ELSE Norm(Void, [r.st EXCEPT !.env = Declare(r.st.env, s.n, r.v)])
      [] s.s = "set" ->
            \* destination place first, then the value (the generator keeps them independent)
            LET p == Resolve(P, s.l, st) IN
            IF p.sig # "norm" THEN p
            ELSE LET r == Eval(P, s.x, p.st) IN
                 IF r.sig # "norm" THEN r
                 ELSE LET env == EnvAt(r.st, p.v.d)
                          w == LWrite(p.v.l, r.v, env, 0) IN
                      Norm(Void, SetEnvAt(r.st, p.v.d, Update(env, w.n, w.v)))
      [] s.s = "cset" ->
            LET p == Resolve(P, s.l, st) IN
            IF p.sig # "norm" THEN p
            ELSE LET r == Eval(P, s.x, p.st) IN
                 IF r.sig # "norm" THEN r
                 ELSE LET env == EnvAt(r.st, p.v.d)
                          old == LRead(p.v.l, env)
                          w == LWrite(p.v.l, Bin(s.op, old, r.v), env, 0)
                      IN Norm(Void, SetEnvAt(r.st, p.v.d, Update(env, w.n, w.v)))
      [] s.s = "print" ->
            LET r == Eval(P, s.x, st) IN
            IF r.sig # "norm" THEN r
            ELSE Norm(Void, [r.st EXCEPT !.out = Append(r.st.out,
                                IF r.v.t = "bool" THEN <<IF r.v.v THEN 1 ELSE 0>> ELSE r.v.b)])
      [] s.s = "expr" -> LET r == Eval(P, s.x, st) IN IF r.sig # "norm" THEN r ELSE Norm(Void, r.st)
      [] s.s \in {"while", "loop"} -> LET r == Loop(P, s, st) IN IF r.sig = "norm" THEN Norm(Void, r.st) ELSE r
      [] s.s = "if" ->
            LET c == Eval(P, s.c, st) IN
            IF c.sig # "norm" THEN c
            ELSE LET r == IF c.v.v THEN Eval(P, s.t, c.st) ELSE Eval(P, s.f, c.st) IN
                 IF r.sig = "norm" THEN Norm(Void, r.st) ELSE r
      \* switch: exactly the arm of the current variant runs with the argument bound to the payload
      \* (the whole value in the default arm)
      [] s.s = "switch" ->
            LET v == Eval(P, s.x, st) IN
            IF v.sig # "norm" THEN v
            ELSE LET hits == {j \in 1..Len(s.arms) : s.arms[j].k = v.v.k}
                     body == IF hits = {} THEN s.dflt ELSE s.arms[CHOOSE j \in hits : TRUE].body
                     arg == IF hits = {} THEN v.v ELSE v.v.p
                     inner == [v.st EXCEPT !.env = Append(v.st.env, [ns |-> <<s.bind>>, vs |-> <<arg>>])]
                     r == Block(P, body, inner)
                     out == [r.st EXCEPT !.env = SubSeq(r.st.env, 1, Len(v.st.env))]
                 IN IF r.sig = "norm" THEN Norm(Void, out) ELSE R(r.v, out, r.sig, r.lab)
      \* a local type declaration (a struct / enum / distinct named inside a function body) has no
      \* run-time effect
      [] s.s = "typedecl" -> Norm(Void, st)
      [] s.s = "break" -> LET r == Eval(P, s.x, st) IN IF r.sig # "norm" THEN r ELSE R(r.v, r.st, "brk", s.label)
      [] s.s = "continue" -> R(Void, st, "cont", s.label)
      [] s.s = "return" -> LET r == Eval(P, s.x, st) IN IF r.sig # "norm" THEN r ELSE R(r.v, r.st, "ret", "")

(* ------------------------------------------------------------------ programs *)
(* observable behaviour of a whole program: what it prints and its exit status.  `main` returns
   an i32 (status = its low byte) or nothing (status 0); a fault prints a message after the
   output so far and exits with status 1. *)
(* global constants are evaluated in the order given (each may use the earlier ones); their
   initialisers are literals and comptime blocks without effects *)
RECURSIVE Globals(_, _, _)
Globals(P, k, st) ==
    IF k > Len(P.globs) THEN st
    ELSE LET r == Eval(P, P.globs[k].x, st) IN
         Globals(P, k + 1, [st EXCEPT !.glob = Bind(st.glob, P.globs[k].n, r.v)])
Run(P, fuel) ==
    LET st0 == [env |-> <<>>, stack |-> <<>>, out |-> <<>>, fuel |-> fuel, glob |-> EmptyScope]
        st1 == IF "globs" \in DOMAIN P THEN Globals(P, 1, st0) ELSE st0
        r == Call(P, "main", <<>>, st1) IN
    [out |-> r.st.out,
     end |-> IF r.sig = "fault" THEN (IF r.v.why = "unwrap" THEN "unwrap" ELSE r.v.why) ELSE IF r.sig = "nofuel" THEN "nofuel" ELSE "exit",
     status |-> IF r.sig = "fault" THEN 1 ELSE IF r.sig = "nofuel" THEN -1
                ELSE IF r.v.t = "int" THEN r.v.b[1] ELSE 0]
================================================================================
