SPECIFICATION Spec
CONSTANTS
  Depth3 = TRUE
  Emit = TRUE
INVARIANTS PrintInjective Emitted
CHECK_DEADLOCK FALSE
