SPECIFICATION USpec
CONSTANTS
  FixDigitRule = FALSE
  FixDotToDash = FALSE
  FixSrcSkip = FALSE
CHECK_DEADLOCK FALSE
