--------------------------------- MODULE ArithMC ---------------------------------
(***************************************************************************)
(* Enumerates the boundary domain of C08 as the initial states of a        *)
(* one-variable machine and prints, per case, the result Arith.tla          *)
(* prescribes ("CASE" lines, replayed into the real compiler).              *)
(***************************************************************************)
EXTENDS Arith, Json, FiniteSets

CONSTANTS Widths,     \* byte widths of the integer types
          Full        \* TRUE: all boundary pairs; FALSE: second operands from a smaller set
VARIABLE c

B2(n) == IF Full THEN Boundary(n)
         ELSE {Zero(n), One(n), MaxU(n), MaxS(n), MinS(n), FromNat(7, n), Neg(FromNat(7, n))}
IntTys == {[w |-> w, s |-> s] : w \in Widths, s \in BOOLEAN}
BinOf(t) == {[k |-> "bin", op |-> op, w |-> t.w, s |-> t.s, a |-> a, b |-> b] :
               op \in (ArithOps \ {"shl", "shr"}) \cup CmpOps, a \in Boundary(t.w), b \in B2(t.w)}
ShiftOf(t) == {[k |-> "bin", op |-> op, w |-> t.w, s |-> t.s, a |-> a, b |-> b] :
               op \in {"shl", "shr"}, a \in Boundary(t.w), b \in ShiftAmounts(t.w)}
UnOf(t) == {[k |-> "un", op |-> op, w |-> t.w, s |-> t.s, a |-> a] :
               op \in (IF t.s THEN {"neg", "bnot"} ELSE {"bnot"}), a \in Boundary(t.w)}
CastOf(t) == {[k |-> "cast", w |-> t.w, s |-> t.s, a |-> a, w2 |-> u.w, s2 |-> u.s] :
               a \in Boundary(t.w), u \in IntTys}
I2FOf(t) == {[k |-> "i2f", w |-> t.w, s |-> t.s, a |-> a, fw |-> fw] :
               a \in Boundary(t.w) \cup {Add(Pow2(8 * t.w - 2, t.w), One(t.w)),
                                         Sub(Pow2(8 * t.w - 2, t.w), One(t.w))}, fw \in {4, 8}}
(* float sources: every boundary integer converted to a float, and half of it *)
Halve(f) == IF FExp(f) > 1 THEN Sub(f, Shl(One(Len(f)), Prec(Len(f)) - 1)) ELSE f
AllFloatSrc(fw) ==
    LET F == UNION {{IntToFloat(a, t.s, fw) : a \in Boundary(t.w)} : t \in IntTys}
        G == F \cup {Dyadic(k, 2, fw) : k \in {1, -1, 2, -2, 3, 6, -6, 10, 510, 511, -511, -514, 1022}}
    IN G \cup {Halve(f) : f \in G}
F2I == {[k |-> "f2i", fw |-> fw, a |-> f, w2 |-> u.w, s2 |-> u.s] :
          fw \in {4, 8}, f \in AllFloatSrc(4) \cup AllFloatSrc(8), u \in IntTys} 
F2IOk == {x \in F2I : Len(x.a) = x.fw}
F2F == {[k |-> "f2f", fw |-> Len(f), a |-> f, fw2 |-> fw2] :
          f \in AllFloatSrc(4) \cup AllFloatSrc(8), fw2 \in {4, 8}}
Ks == {0, 1, -1, 2, 3, -3, 4, 6, 10, -10, 12, 100, -100, 1023, 4097, -4097}
FBin == {[k |-> "fbin", op |-> op, fw |-> fw, ka |-> ka, kb |-> kb] :
           op \in FloatOps, fw \in {4, 8}, ka \in Ks, kb \in Ks}
FNeg == {[k |-> "fneg", fw |-> fw, ka |-> ka] : fw \in {4, 8}, ka \in Ks}

(* families: one initial state each, so that TLC's workers share the enumeration *)
Fams == {[fam |-> f, w |-> t.w, s |-> t.s] : f \in {"bin", "shift", "un", "cast", "i2f"}, t \in IntTys}
        \cup {[fam |-> f, w |-> 0, s |-> FALSE] : f \in {"f2i", "f2f", "fbin", "fneg", "boolchar"}}
Bools == {<<0>>, <<1>>}
Chars == {<<0>>, <<65>>, <<97>>, <<127>>, <<128>>, <<255>>}
BoolChar ==
    {[k |-> "bbin", op |-> op, a |-> a, b |-> b] : op \in {"land", "lor", "and", "or", "eq", "ne"}, a \in Bools, b \in Bools}      \* (no ~ on bool)
    \cup {[k |-> "bnot", a |-> a] : a \in Bools}
    \cup {[k |-> "ccmp", op |-> op, a |-> a, b |-> b] : op \in {"eq", "ne"}, a \in Chars, b \in Chars}  \* chars are not ordered
    \cup {[k |-> "b2i", a |-> a, w2 |-> u.w, s2 |-> u.s] : a \in Bools, u \in IntTys}
    \cup {[k |-> "c2i", a |-> a, w2 |-> u.w, s2 |-> u.s] : a \in Chars, u \in IntTys}
    \cup {[k |-> "i2c", a |-> a] : a \in Chars}
CasesOf(F) ==
    LET t == [w |-> F.w, s |-> F.s] IN
    CASE F.fam = "bin" -> BinOf(t)
      [] F.fam = "shift" -> ShiftOf(t)
      [] F.fam = "un" -> UnOf(t)
      [] F.fam = "cast" -> CastOf(t)
      [] F.fam = "i2f" -> I2FOf(t)
      [] F.fam = "f2i" -> F2IOk
      [] F.fam = "f2f" -> F2F
      [] F.fam = "fbin" -> FBin
      [] F.fam = "fneg" -> FNeg
      [] F.fam = "boolchar" -> BoolChar
IsFam(x) == "fam" \in DOMAIN x

Init == c \in Fams
Next == IsFam(c) /\ c' \in CasesOf(c)
Spec == Init /\ [][Next]_c

Emitted == IsFam(c) \/ PrintT("CASE " \o ToJson(c))

(* sanity of the specification itself, checked on every enumerated case *)
Sane == IsFam(c) \/
   (/\ (c.k = "bin" /\ c.op = "sub") => Add(Result(c), c.b) = c.a
    /\ (c.k = "bin" /\ c.op = "div" /\ c.w <= 2 /\ Result(c) # Unspec) =>
            DivRemOk(c.a, c.b, Result(c), IntBin("rem", c.a, c.b, c.s), c.s)
    /\ (c.k = "cast" /\ c.w2 >= c.w) => Resize(Result(c), c.w, FALSE) = c.a
    /\ (c.k = "i2f" /\ c.w <= 2) => FloatToInt(Result(c), c.w, c.s) = c.a)
================================================================================
