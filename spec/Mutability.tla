------------------------------- MODULE Mutability -------------------------------
(***************************************************************************)
(* C14 (P): immutable data can never be modified.                          *)
(*                                                                         *)
(* A place expression is a root followed by steps.  The state graph of     *)
(* this module enumerates all well-typed chains over the declarations      *)
(*   T :: struct { v: i32 };                                               *)
(*   S :: struct { a: i32, arr: [2]i32, inner: T, pm: ^mut T, pi: ^T,      *)
(*                 o: ?T, pma: ^mut [2]i32, pia: ^[2]i32 };                *)
(*   G :: struct { a: i32, arr: [2]i32, inner: T };                        *)
(* with roots                                                              *)
(*   lm := S..   li :: S..   ps: S (parameter)   gg :: G.. (global)        *)
(*   vm := ^mut s   vi := ^s   cm :: ^mut s   qm: ^mut S   qi: ^S (params) *)
(*   am : ^S = ^mut s   fi() : ^S   fm() : ^mut S  (call results)          *)
(* Mutable(place): the last pointer crossed on the path is ^mut, or no     *)
(* pointer is crossed and the root is a `:=` local.  Assignment, compound  *)
(* assignment and ^mut of a place are accepted iff it is mutable.          *)
(***************************************************************************)
EXTENDS Naturals, Sequences, FiniteSets, TLC, Json, MutHeap

CONSTANTS MaxSteps, Emit

VARIABLES root, steps, ty, mut, imm, loc
vars == <<root, steps, ty, mut, imm, loc>>

(* pointer types: [to |-> pointee, m |-> mutable] *)
Ptr == [PmT |-> [to |-> "T", m |-> TRUE],  PiT |-> [to |-> "T", m |-> FALSE],
        PmS |-> [to |-> "S", m |-> TRUE],  PiS |-> [to |-> "S", m |-> FALSE],
        PmA |-> [to |-> "A", m |-> TRUE],  PiA |-> [to |-> "A", m |-> FALSE],
        \* pointers to pointers: ^^S, ^ ^mut S, ^mut ^S, ^mut ^mut S
        PiPiS |-> [to |-> "PiS", m |-> FALSE], PiPmS |-> [to |-> "PmS", m |-> FALSE],
        PmPiS |-> [to |-> "PiS", m |-> TRUE],  PmPmS |-> [to |-> "PmS", m |-> TRUE]]
IsPtr(t) == t \in DOMAIN Ptr

Fields == [S |-> [a |-> "i32", arr |-> "A", inner |-> "T", pm |-> "PmT", pi |-> "PiT", o |-> "OT",
                  pma |-> "PmA", pia |-> "PiA"],
           G |-> [a |-> "i32", arr |-> "A", inner |-> "T"],
           T |-> [v |-> "i32"]]
IsStruct(t) == t \in DOMAIN Fields

(* member access and indexing dereference every pointer level of their base:
   Peel(t) = <<the type finally reached, the last pointer type crossed>> *)
RECURSIVE Peel(_, _)
Peel(t, last) == IF IsPtr(t) THEN Peel(Ptr[t].to, t) ELSE <<t, last>>
RECURSIVE AnyImm(_)
AnyImm(t) == IF IsPtr(t) THEN (~Ptr[t].m) \/ AnyImm(Ptr[t].to) ELSE FALSE
Base(t) == Peel(t, "")[1]
LastOf(t) == Peel(t, "")[2]

(* root |-> <<type, the binding itself may be assigned / mutated in place>> *)
Roots == [lm |-> <<"S", TRUE>>, li |-> <<"S", FALSE>>, ps |-> <<"S", FALSE>>, gg |-> <<"G", FALSE>>,
          vm |-> <<"PmS", TRUE>>, vi |-> <<"PiS", TRUE>>, cm |-> <<"PmS", FALSE>>,
          qm |-> <<"PmS", FALSE>>, qi |-> <<"PiS", FALSE>>,
          \* am : ^S = ^mut s  (an immutable pointer type initialised from a mutable reference)
          am |-> <<"PiS", TRUE>>,
          \* results of calls: fi :: () -> ^S, fm :: () -> ^mut S  (not places themselves)
          fi |-> <<"PiS", FALSE>>, fm |-> <<"PmS", FALSE>>,
          \* ii := ^vi   im := ^vm   mi := ^mut vi   mm := ^mut vm   (pointers to the pointer locals)
          ii |-> <<"PiPiS", TRUE>>, im |-> <<"PiPmS", TRUE>>, mi |-> <<"PmPiS", TRUE>>, mm |-> <<"PmPmS", TRUE>>,
          \* parameters qii: ^^S, qmi: ^mut ^S, qmm: ^mut ^mut S
          qii |-> <<"PiPiS", FALSE>>, qmi |-> <<"PmPiS", FALSE>>, qmm |-> <<"PmPmS", FALSE>>]

Init == /\ root \in DOMAIN Roots
        /\ steps = <<>>
        /\ ty = Roots[root][1]
        /\ mut = Roots[root][2]
        /\ imm = FALSE
        /\ loc = <<root>>          \* the heap location the place denotes (MutHeap)

(* imm: some immutable pointer has been crossed on the way.  imm /\ mut (an immutable pointer, then
   a ^mut one: `vi.pm.v`, `im^.a`) is reported as "mixed": the data lives behind the ^mut pointer,
   not in what the immutable pointer points at, so the last pointer crossed decides. *)
StepL(s, t, m, i, l) == /\ Len(steps) < MaxSteps
                        /\ steps' = Append(steps, s)
                        /\ ty' = t
                        /\ mut' = m
                        /\ imm' = (imm \/ i)
                        /\ loc' = l
                        /\ UNCHANGED root
RECURSIVE Depth(_)
Depth(t) == IF IsPtr(t) THEN 1 + Depth(Ptr[t].to) ELSE 0

FieldStep == /\ IsStruct(ty)
             /\ \E f \in DOMAIN Fields[ty] :
                    StepL([k |-> "field", f |-> f], Fields[ty][f], mut, FALSE, Append(loc, f))
IndexStep == ty = "A" /\ StepL([k |-> "index", f |-> ""], "i32", mut, FALSE, Append(loc, "0"))
(* crossing a pointer: from here on the pointer's own mutability decides *)
DerefStep == IsPtr(ty) /\ StepL([k |-> "deref", f |-> ""], Ptr[ty].to, Ptr[ty].m, ~Ptr[ty].m, Target(loc))
AutoFieldStep == /\ IsPtr(ty) /\ IsStruct(Base(ty))
                 /\ \E f \in DOMAIN Fields[Base(ty)] :
                        StepL([k |-> "field", f |-> f], Fields[Base(ty)][f], Ptr[LastOf(ty)].m, AnyImm(ty),
                              Append(TargetN(loc, Depth(ty)), f))
AutoIndexStep == IsPtr(ty) /\ Base(ty) = "A"
                 /\ StepL([k |-> "index", f |-> ""], "i32", Ptr[LastOf(ty)].m, AnyImm(ty),
                          Append(TargetN(loc, Depth(ty)), "0"))
ParenStep == /\ (IF steps = <<>> THEN TRUE ELSE steps[Len(steps)].k # "paren")
             /\ StepL([k |-> "paren", f |-> ""], ty, mut, FALSE, loc)
UnwrapStep == ty = "OT" /\ StepL([k |-> "unwrap", f |-> ""], "T", mut, FALSE, loc)

Next == FieldStep \/ IndexStep \/ DerefStep \/ AutoFieldStep \/ AutoIndexStep \/ ParenStep \/ UnwrapStep
Spec == Init /\ [][Next]_vars

--------------------------------------------------------------------------------
(* the property's definition, stated independently of the incremental `mut` variable:
   walk the chain again and remember the last pointer crossed *)
RECURSIVE LastPtr(_, _, _)
LastPtr(t, k, last) ==      \* last = "" (none) or a pointer type name
    IF k > Len(steps) THEN last
    ELSE LET s == steps[k] IN
      IF s.k = "deref" THEN LastPtr(Ptr[t].to, k + 1, t)
      ELSE IF s.k = "field" /\ IsPtr(t) THEN LastPtr(Fields[Base(t)][s.f], k + 1, LastOf(t))
      ELSE IF s.k = "field" THEN LastPtr(Fields[t][s.f], k + 1, last)
      ELSE IF s.k = "index" /\ IsPtr(t) THEN LastPtr("i32", k + 1, LastOf(t))
      ELSE IF s.k = "index" THEN LastPtr("i32", k + 1, last)
      ELSE IF s.k = "unwrap" THEN LastPtr("T", k + 1, last)
      ELSE LastPtr(t, k + 1, last)
MutableByDefinition ==
    LET lp == LastPtr(Roots[root][1], 1, "") IN
    IF lp = "" THEN Roots[root][2] ELSE Ptr[lp].m
Consistent == mut = MutableByDefinition

Emitted ==
    Emit => PrintT("REPLAY " \o ToJson([root |-> root, steps |-> steps, ty |-> ty, mutable |-> mut,
                                     mixed |-> (imm /\ mut), loc |-> loc]))
================================================================================
