SPECIFICATION Spec
CONSTANTS
  MaxLinks = 3
INVARIANTS Monotone Emitted
CHECK_DEADLOCK FALSE
