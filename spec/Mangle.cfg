SPECIFICATION Spec
CONSTANTS
  FixDigitRule = FALSE
  FixDotToDash = FALSE
  FixSrcSkip = FALSE
INVARIANT Checked
POSTCONDITION Complete
CHECK_DEADLOCK FALSE
