SPECIFICATION Spec
CONSTANTS
  Widths = {1, 2, 4, 8, 16}
  Full = TRUE
INVARIANTS Emitted Sane
CHECK_DEADLOCK FALSE
