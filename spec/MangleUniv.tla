------------------------------- MODULE MangleUniv -------------------------------
(* prints the descriptor universe of Mangle.tla as JSON for the harness *)
EXTENDS Mangle
UInit == i = 0 /\ PrintT("DESCS " \o ToJson(Descriptors))
USpec == UInit /\ [][FALSE]_vars
================================================================================
