SPECIFICATION Spec
CONSTANTS
  MaxLen = 3
INVARIANTS Frame FaultStops Emitted
CHECK_DEADLOCK FALSE
