--------------------------------- MODULE BVTest ---------------------------------
(* self-check of BV.tla against results computed with Python's big integers *)
EXTENDS BV, TLC, Json, IOUtils
Rec == ndJsonDeserialize(IOEnv.TRACE)
VARIABLE i
Init == i = 0
Next == i < Len(Rec) /\ i' = i + 1
Spec == Init /\ [][Next]_i
Ok(r) ==
    /\ Add(r.a, r.b) = r.add /\ Sub(r.a, r.b) = r.sub /\ Mul(r.a, r.b) = r.mul
    /\ And(r.a, r.b) = r.and_ /\ Or(r.a, r.b) = r.or_ /\ Xor(r.a, r.b) = r.xor /\ Not(r.a) = r.not_
    /\ Neg(r.a) = r.neg
    /\ Shl(r.a, r.s) = r.shl /\ LShr(r.a, r.s) = r.lshr /\ AShr(r.a, r.s) = r.ashr
    /\ ULt(r.a, r.b) = r.ult /\ SLt(r.a, r.b) = r.slt
    /\ (IsZero(r.b) \/ (UDiv(r.a, r.b) = r.udiv /\ URem(r.a, r.b) = r.urem))
    /\ (IsZero(r.b) \/ r.sovf \/ (SDiv(r.a, r.b) = r.sdiv /\ SRem(r.a, r.b) = r.srem))
    /\ Resize(r.a, r.m, TRUE) = r.sext /\ Resize(r.a, r.m, FALSE) = r.zext
    /\ TopBit(r.a) = r.top
Checked == i > 0 => (Ok(Rec[i]) \/ PrintT("BAD " \o ToJson([idx |-> i])))
================================================================================
