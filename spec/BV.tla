----------------------------------- MODULE BV -----------------------------------
(***************************************************************************)
(* Machine integers as little-endian byte sequences (TLC's integers are    *)
(* 32-bit).  A value of width 8*n bits is <<b1, ..., bn>> with b1 the      *)
(* least significant byte.  All operations are total and wrap modulo       *)
(* 2^(8n); signedness is a parameter of the operations that need it.       *)
(***************************************************************************)
EXTENDS Naturals, Sequences

Zero(n) == [k \in 1..n |-> 0]
(* small natural (< 2^31) to an n-byte value *)
RECURSIVE Pow256(_)
Pow256(k) == IF k = 0 THEN 1 ELSE 256 * Pow256(k - 1)
FromNat(x, n) == [k \in 1..n |-> IF k <= 4 THEN (x \div Pow256(k - 1)) % 256 ELSE 0]
One(n) == FromNat(1, n)
(* value as a natural - only for values known to be < 2^31 *)
RECURSIVE ToNatFrom(_, _)
ToNatFrom(a, k) == IF k > Len(a) THEN 0 ELSE a[k] + 256 * ToNatFrom(a, k + 1)
ToNat(a) == ToNatFrom(a, 1)
FitsNat(a) == \A k \in 1..Len(a) : (k > 4 => a[k] = 0) /\ (k = 4 => a[k] < 128)

IsZero(a) == \A k \in 1..Len(a) : a[k] = 0
SignBit(a) == a[Len(a)] >= 128

(* bits *)
Bit(a, i) == (a[(i \div 8) + 1] \div (2 ^ (i % 8))) % 2            \* i in 0..8n-1
FromBits(f, n) == [k \in 1..n |-> f[8 * (k - 1)] + 2 * f[8 * (k - 1) + 1] + 4 * f[8 * (k - 1) + 2]
                                   + 8 * f[8 * (k - 1) + 3] + 16 * f[8 * (k - 1) + 4] + 32 * f[8 * (k - 1) + 5]
                                   + 64 * f[8 * (k - 1) + 6] + 128 * f[8 * (k - 1) + 7]]
Bits(a) == [i \in 0..(8 * Len(a) - 1) |-> Bit(a, i)]

(* bytewise logic *)
ByteOp(x, y, F(_, _)) ==
    LET b(i) == F((x \div (2 ^ i)) % 2, (y \div (2 ^ i)) % 2)
    IN b(0) + 2 * b(1) + 4 * b(2) + 8 * b(3) + 16 * b(4) + 32 * b(5) + 64 * b(6) + 128 * b(7)
And(a, b) == [k \in 1..Len(a) |-> ByteOp(a[k], b[k], LAMBDA p, q : p * q)]
Or(a, b)  == [k \in 1..Len(a) |-> ByteOp(a[k], b[k], LAMBDA p, q : IF p + q > 0 THEN 1 ELSE 0)]
Xor(a, b) == [k \in 1..Len(a) |-> ByteOp(a[k], b[k], LAMBDA p, q : (p + q) % 2)]
Not(a)    == [k \in 1..Len(a) |-> 255 - a[k]]

(* addition with carry *)
RECURSIVE AddFrom(_, _, _, _)
AddFrom(a, b, k, carry) ==
    IF k > Len(a) THEN <<>>
    ELSE LET s == a[k] + b[k] + carry IN <<s % 256>> \o AddFrom(a, b, k + 1, s \div 256)
Add(a, b) == AddFrom(a, b, 1, 0)
Neg(a) == Add(Not(a), One(Len(a)))
Sub(a, b) == Add(a, Neg(b))

(* schoolbook multiplication, truncated to n bytes *)
RECURSIVE ColSum(_, _, _, _)
ColSum(a, b, col, i) ==      \* sum of a[i] * b[col + 1 - i] for i in 1..col
    IF i > col THEN 0 ELSE a[i] * b[col + 1 - i] + ColSum(a, b, col, i + 1)
RECURSIVE MulFrom(_, _, _, _)
MulFrom(a, b, col, carry) ==
    IF col > Len(a) THEN <<>>
    ELSE LET s == ColSum(a, b, col, 1) + carry IN <<s % 256>> \o MulFrom(a, b, col + 1, s \div 256)
Mul(a, b) == MulFrom(a, b, 1, 0)

(* comparisons *)
RECURSIVE ULtFrom(_, _, _)
ULtFrom(a, b, k) == IF k = 0 THEN FALSE
                    ELSE IF a[k] # b[k] THEN a[k] < b[k] ELSE ULtFrom(a, b, k - 1)
ULt(a, b) == ULtFrom(a, b, Len(a))
ULe(a, b) == a = b \/ ULt(a, b)
SLt(a, b) == IF SignBit(a) # SignBit(b) THEN SignBit(a) ELSE ULt(a, b)
SLe(a, b) == a = b \/ SLt(a, b)
Lt(a, b, signed) == IF signed THEN SLt(a, b) ELSE ULt(a, b)
Le(a, b, signed) == IF signed THEN SLe(a, b) ELSE ULe(a, b)

(* shifts by s in 0..8n-1 *)
Shl(a, s) == LET n == Len(a) bs == Bits(a) IN
             FromBits([i \in 0..(8 * n - 1) |-> IF i >= s THEN bs[i - s] ELSE 0], n)
LShr(a, s) == LET n == Len(a) bs == Bits(a) IN
              FromBits([i \in 0..(8 * n - 1) |-> IF i + s <= 8 * n - 1 THEN bs[i + s] ELSE 0], n)
AShr(a, s) == LET n == Len(a) bs == Bits(a) sg == IF SignBit(a) THEN 1 ELSE 0 IN
              FromBits([i \in 0..(8 * n - 1) |-> IF i + s <= 8 * n - 1 THEN bs[i + s] ELSE sg], n)
Shr(a, s, signed) == IF signed THEN AShr(a, s) ELSE LShr(a, s)

(* unsigned long division, bit by bit from the top: <<quotient, remainder>>; b # 0 *)
RECURSIVE DivStep(_, _, _, _, _)
DivStep(a, b, i, q, r) ==
    IF i < 0 THEN <<q, r>>
    ELSE LET n == Len(a)
             r1 == Add(Shl(r, 1), FromNat(Bit(a, i), n))      \* r < b <= 2^(8n) - 1 so r*2+1 may
                                                              \* overflow only if b's top bit is set;
             over == SignBit(r)                               \* then r1 >= b certainly
             ge == over \/ ~ULt(r1, b)
         IN DivStep(a, b, i - 1,
                    IF ge THEN Or(q, Shl(One(n), i)) ELSE q,
                    IF ge THEN Sub(r1, b) ELSE r1)
UDivRem(a, b) == DivStep(a, b, 8 * Len(a) - 1, Zero(Len(a)), Zero(Len(a)))
UDiv(a, b) == UDivRem(a, b)[1]
URem(a, b) == UDivRem(a, b)[2]
Abs(a) == IF SignBit(a) THEN Neg(a) ELSE a
(* truncation toward zero; the remainder has the sign of the dividend *)
SDiv(a, b) == LET q == UDiv(Abs(a), Abs(b)) IN IF SignBit(a) # SignBit(b) THEN Neg(q) ELSE q
SRem(a, b) == LET r == URem(Abs(a), Abs(b)) IN IF SignBit(a) THEN Neg(r) ELSE r
Div(a, b, signed) == IF signed THEN SDiv(a, b) ELSE UDiv(a, b)
Rem(a, b, signed) == IF signed THEN SRem(a, b) ELSE URem(a, b)

(* division by a small natural d (2 <= d <= 2^20): byte-wise long division, <<quotient, remainder>> *)
RECURSIVE DivSmallFrom(_, _, _, _)
DivSmallFrom(a, d, k, rem) ==        \* returns <<bytes k..1 of the quotient (as a function), remainder>>
    IF k = 0 THEN <<<<>>, rem>>
    ELSE LET cur == rem * 256 + a[k]
             rest == DivSmallFrom(a, d, k - 1, cur % d)
         IN <<rest[1] \o <<cur \div d>>, rest[2]>>
DivSmall(a, d) == DivSmallFrom(a, d, Len(a), 0)

(* width changes; `signed` is the signedness of the SOURCE *)
Resize(a, n, signed) ==
    [k \in 1..n |-> IF k <= Len(a) THEN a[k] ELSE IF signed /\ SignBit(a) THEN 255 ELSE 0]

(* extreme values *)
MaxU(n) == [k \in 1..n |-> 255]
MaxS(n) == [k \in 1..n |-> IF k = n THEN 127 ELSE 255]
MinS(n) == [k \in 1..n |-> IF k = n THEN 128 ELSE 0]
Pow2(e, n) == Shl(One(n), e)

(* index of the most significant set bit, -1 for zero is not representable: 0 for zero *)
RECURSIVE TopBitFrom(_, _)
TopBitFrom(a, i) == IF i = 0 \/ Bit(a, i) = 1 THEN i ELSE TopBitFrom(a, i - 1)
TopBit(a) == TopBitFrom(a, 8 * Len(a) - 1)
================================================================================
