SPECIFICATION Spec
CONSTANTS
  MaxEnum = 4
  MaxArms = 5
INVARIANTS ExactlyOne Emitted
CHECK_DEADLOCK FALSE
