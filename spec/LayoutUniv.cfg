SPECIFICATION USpec
CHECK_DEADLOCK FALSE
