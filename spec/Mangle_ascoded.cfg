SPECIFICATION MSpec
CONSTANTS
  FixDigitRule = FALSE
  FixDotToDash = FALSE
  FixSrcSkip = FALSE
INVARIANT ReportCollisions
CHECK_DEADLOCK FALSE
