SPECIFICATION Spec
INVARIANTS AllDifferent Consistent Emitted
CHECK_DEADLOCK FALSE
