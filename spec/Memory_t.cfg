SPECIFICATION MSpec
CONSTANTS
  ByteSizes = {1, 2, 3, 4, 5, 6, 7, 8, 9, 10, 11, 12, 13, 14, 15, 16, 17, 18, 19, 20, 21, 22, 23, 24, 25, 26, 27, 28, 29, 30, 31, 32, 33, 34, 35, 36, 37, 38, 39, 40, 41, 42, 43, 44, 45, 46, 47, 48, 49, 50, 51, 52, 53, 54, 55, 56, 57, 58, 59, 60, 61, 62, 63, 64}
INVARIANTS GuardsIntact Emitted
PROPERTY Frame
CHECK_DEADLOCK FALSE
