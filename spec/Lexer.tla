--------------------------------- MODULE Lexer ---------------------------------
(***************************************************************************)
(* C22: lexing is total and lossless.                                      *)
(*                                                                         *)
(* A record is one observed run of lexer::lex: the input as code points    *)
(* `cp` with their UTF-8 widths `w`, its byte length `len`, and the token  *)
(* list `toks` (<<kind, start, end>> byte offsets), or a panic message.    *)
(*                                                                         *)
(* (P)  Tiles /\ every token's text is in the language of its kind, with   *)
(*      one recogniser per kind written from /repo/tokenizer.txt.          *)
(* (M)  the exact token list: maximal munch with keyword > regex priority  *)
(*      plus the string / char / comment sub-lexers (lex_string, lex_char, *)
(*      lex_comment) - used for drift only.                                *)
(***************************************************************************)
EXTENDS Naturals, Sequences, FiniteSets, TLC, Json, IOUtils

Rec == ndJsonDeserialize(IOEnv.TRACE)
ExpectN == atoi(IOEnv.EXPECT_N)       \* size of the enumerated space (0 = not an enumeration)

VARIABLE i
vars == <<i>>

Keyword == [
    As |-> <<97, 115>>,
    If |-> <<105, 102>>,
    Else |-> <<101, 108, 115, 101>>,
    While |-> <<119, 104, 105, 108, 101>>,
    Loop |-> <<108, 111, 111, 112>>,
    Switch |-> <<115, 119, 105, 116, 99, 104>>,
    In |-> <<105, 110>>,
    Distinct |-> <<100, 105, 115, 116, 105, 110, 99, 116>>,
    Mut |-> <<109, 117, 116>>,
    Extern |-> <<101, 120, 116, 101, 114, 110>>,
    Struct |-> <<115, 116, 114, 117, 99, 116>>,
    Enum |-> <<101, 110, 117, 109>>,
    Comptime |-> <<99, 111, 109, 112, 116, 105, 109, 101>>,
    Return |-> <<114, 101, 116, 117, 114, 110>>,
    Break |-> <<98, 114, 101, 97, 107>>,
    Continue |-> <<99, 111, 110, 116, 105, 110, 117, 101>>,
    Defer |-> <<100, 101, 102, 101, 114>>,
    Try |-> <<116, 114, 121>>,
    Catch |-> <<99, 97, 116, 99, 104>>]

Punct == [
    Plus |-> <<43>>,
    Hyphen |-> <<45>>,
    Asterisk |-> <<42>>,
    Slash |-> <<47>>,
    Percent |-> <<37>>,
    Left |-> <<60>>,
    DoubleLeft |-> <<60, 60>>,
    LeftEquals |-> <<60, 61>>,
    Right |-> <<62>>,
    DoubleRight |-> <<62, 62>>,
    RightEquals |-> <<62, 61>>,
    Bang |-> <<33>>,
    BangEquals |-> <<33, 61>>,
    And |-> <<38>>,
    DoubleAnd |-> <<38, 38>>,
    Pipe |-> <<124>>,
    DoublePipe |-> <<124, 124>>,
    Equals |-> <<61>>,
    DoubleEquals |-> <<61, 61>>,
    Tilde |-> <<126>>,
    Comma |-> <<44>>,
    Dot |-> <<46>>,
    Ellipsis |-> <<46, 46, 46>>,
    Question |-> <<63>>,
    Arrow |-> <<45, 62>>,
    FatArrow |-> <<61, 62>>,
    Caret |-> <<94>>,
    Backtick |-> <<96>>,
    LParen |-> <<40>>,
    RParen |-> <<41>>,
    LBrack |-> <<91>>,
    RBrack |-> <<93>>,
    LBrace |-> <<123>>,
    RBrace |-> <<125>>,
    Colon |-> <<58>>,
    Semicolon |-> <<59>>,
    Hash |-> <<35>>]

BoolText == {<<116, 114, 117, 101>>, <<102, 97, 108, 115, 101>>}
KeywordKinds == DOMAIN Keyword
PunctKinds == DOMAIN Punct
KeywordTexts == {Keyword[k] : k \in KeywordKinds}

\* logos' \d is Unicode-aware: any decimal digit (general category Nd)
NdRanges == {<<48, 57>>, <<1632, 1641>>, <<1776, 1785>>, <<1984, 1993>>, <<2406, 2415>>, <<2534, 2543>>, <<2662, 2671>>, <<2790, 2799>>, <<2918, 2927>>, <<3046, 3055>>, <<3174, 3183>>, <<3302, 3311>>, <<3430, 3439>>, <<3558, 3567>>, <<3664, 3673>>, <<3792, 3801>>, <<3872, 3881>>, <<4160, 4169>>, <<4240, 4249>>, <<6112, 6121>>, <<6160, 6169>>, <<6470, 6479>>, <<6608, 6617>>, <<6784, 6793>>, <<6800, 6809>>, <<6992, 7001>>, <<7088, 7097>>, <<7232, 7241>>, <<7248, 7257>>, <<42528, 42537>>, <<43216, 43225>>, <<43264, 43273>>, <<43472, 43481>>, <<43504, 43513>>, <<43600, 43609>>, <<44016, 44025>>, <<65296, 65305>>, <<66720, 66729>>, <<68912, 68921>>, <<69734, 69743>>, <<69872, 69881>>, <<69942, 69951>>, <<70096, 70105>>, <<70384, 70393>>, <<70736, 70745>>, <<70864, 70873>>, <<71248, 71257>>, <<71360, 71369>>, <<71472, 71481>>, <<71904, 71913>>, <<72016, 72025>>, <<72784, 72793>>, <<73040, 73049>>, <<73120, 73129>>, <<92768, 92777>>, <<92864, 92873>>, <<93008, 93017>>, <<120782, 120831>>, <<123200, 123209>>, <<123632, 123641>>, <<125264, 125273>>, <<130032, 130041>>}
Digit(c)   == \E r \in NdRanges : r[1] <= c /\ c <= r[2]
Alpha(c)   == c \in 65..90 \/ c \in 97..122
IdStart(c) == Alpha(c) \/ c = 95
IdCont(c)  == IdStart(c) \/ c \in 48..57
HexD(c)    == c \in 48..57 \/ c \in 65..70 \/ c \in 97..102
Ws(c)      == c \in {32, 9, 13, 10}
IsE(c)     == c \in {101, 69}

All(t, P(_)) == \A k \in 1..Len(t) : P(t[k])
Sub(t, a, b) == IF a > b THEN <<>> ELSE SubSeq(t, a, b)

\* one or more digit runs: a digit, then digits or underscores
Digs(t) == t # <<>> /\ Digit(t[1]) /\ \A k \in 1..Len(t) : Digit(t[k]) \/ t[k] = 95

IsIdentShape(t) == t # <<>> /\ IdStart(t[1]) /\ All(t, IdCont)
IsInt(t) == \/ Digs(t)
            \/ \E p \in 1..Len(t) : IsE(t[p]) /\ Digs(Sub(t, 1, p - 1)) /\ Digs(Sub(t, p + 1, Len(t)))
ExpPart(r) == \* exponent: e or E, optional sign, digit runs
    /\ Len(r) >= 2 /\ IsE(r[1])
    /\ \/ Digs(Sub(r, 2, Len(r)))
       \/ (r[2] \in {45, 43} /\ Digs(Sub(r, 3, Len(r))))
IsFloat(t) ==
    \E p \in 1..Len(t) :
        /\ t[p] = 46
        /\ (p = 1 \/ Digs(Sub(t, 1, p - 1)))
        /\ LET rest == Sub(t, p + 1, Len(t)) IN
             \/ Digs(rest)
             \/ \E q \in 1..Len(rest) : IsE(rest[q]) /\ Digs(Sub(rest, 1, q - 1))
                                        /\ ExpPart(Sub(rest, q, Len(rest)))
IsHex(t) == Len(t) >= 3 /\ t[1] = 48 /\ t[2] = 120 /\ All(Sub(t, 3, Len(t)), HexD)
IsBin(t) == Len(t) >= 3 /\ t[1] = 48 /\ t[2] = 98 /\ \A k \in 3..Len(t) : t[k] \in {48, 49}

(* the text of an Error token is not, as a whole, a token of a proper top-level kind *)
IsProperToken(t) ==
    \/ t \in KeywordTexts \/ t \in {Punct[k] : k \in PunctKinds} \/ t \in BoolText
    \/ IsIdentShape(t) \/ IsInt(t) \/ IsFloat(t) \/ IsHex(t) \/ IsBin(t)
    \/ (t # <<>> /\ All(t, Ws)) \/ t = <<160>>

(* one recogniser per token kind *)
InLanguage(kind, t) ==
    CASE kind \in KeywordKinds -> t = Keyword[kind]
      [] kind \in PunctKinds -> t = Punct[kind]
      [] kind = "Whitespace" -> t # <<>> /\ All(t, Ws)
      [] kind = "NonBreakingSpace" -> t = <<160>>
      [] kind = "Bool" -> t \in BoolText
      [] kind = "Ident" -> IsIdentShape(t) /\ t \notin KeywordTexts /\ t \notin BoolText
      [] kind = "Int" -> IsInt(t)
      [] kind = "Float" -> IsFloat(t)
      [] kind = "Hex" -> IsHex(t)
      [] kind = "Bin" -> IsBin(t)
      [] kind = "SingleQuote" -> t = <<39>>
      [] kind = "DoubleQuote" -> t = <<34>>
      [] kind = "Escape" -> Len(t) = 2 /\ t[1] = 92 /\ t[2] # 10
      [] kind = "StringContents" -> t # <<>> /\ \A k \in 1..Len(t) : t[k] \notin {92, 10}
      [] kind = "CommentLeader" -> t = <<47, 47>>
      [] kind = "CommentContents" -> \A k \in 1..Len(t) : t[k] # 10
      [] kind = "Error" -> t # <<>> /\ ~IsProperToken(t)
      [] OTHER -> FALSE   \* a kind the tokenizer definition does not have

--------------------------------------------------------------------------------
(* byte offsets <-> character indices *)
RECURSIVE PrefixSums(_, _, _)
PrefixSums(w, k, acc) == IF k > Len(w) THEN <<>> ELSE <<acc + w[k]>> \o PrefixSums(w, k + 1, acc + w[k])
Bounds(r) == <<0>> \o PrefixSums(r.w, 1, 0)          \* Bounds[k+1] = byte offset after k chars
IsBound(r, o) == \E k \in 1..Len(Bounds(r)) : Bounds(r)[k] = o
CharIdx(r, o) == (CHOOSE k \in 1..Len(Bounds(r)) : Bounds(r)[k] = o) - 1
TextOf(r, tk) == Sub(r.cp, CharIdx(r, tk[2]) + 1, CharIdx(r, tk[3]))

Tiles(r) ==
    LET ts == r.toks n == Len(ts) IN
    /\ (n = 0) = (r.len = 0)
    /\ n > 0 => ts[1][2] = 0 /\ ts[n][3] = r.len
    /\ \A k \in 1..n : ts[k][2] <= ts[k][3] /\ IsBound(r, ts[k][2]) /\ IsBound(r, ts[k][3])
    /\ \A k \in 1..(n - 1) : ts[k][3] = ts[k + 1][2]

KindsAgree(r) == \A k \in 1..Len(r.toks) : InLanguage(r.toks[k][1], TextOf(r, r.toks[k]))

PropOk(r) == r.panic = "" /\ Tiles(r) /\ KindsAgree(r)

Why(r) == IF r.panic # "" THEN "panic"
          ELSE IF ~Tiles(r) THEN "tokens do not tile the input"
          ELSE "token kind disagrees with its text"

--------------------------------------------------------------------------------
(* (M) exact lexing of a code point sequence *)
MaxOf(S) == IF S = {} THEN 0 ELSE CHOOSE x \in S : \A y \in S : y <= x
RegexKinds == <<"Bool", "Ident", "Float", "Int", "Hex", "Bin", "Whitespace", "NonBreakingSpace">>
RegexLang(kind, t) ==
    CASE kind = "Ident" -> IsIdentShape(t)       \* priority, not exclusion, decides keywords
      [] OTHER -> InLanguage(kind, t)
(* longest prefix of s[p..] in the language of a kind *)
LongestRegex(kind, s, p) == MaxOf({n \in 1..(Len(s) - p + 1) : RegexLang(kind, Sub(s, p, p + n - 1))})
LongestFixed(tbl, s, p) ==
    LET cands == {k \in DOMAIN tbl : Len(tbl[k]) <= Len(s) - p + 1 /\ Sub(s, p, p + Len(tbl[k]) - 1) = tbl[k]}
        best == MaxOf({Len(tbl[k]) : k \in cands})
    IN IF cands = {} THEN <<"", 0>> ELSE <<CHOOSE k \in cands : Len(tbl[k]) = best, best>>

\* the __InternalString / __InternalChar regex from s[k] on (q is the quote); returns the end index (inclusive)
RECURSIVE QuotedEnd(_, _, _)
QuotedEnd(s, k, q) ==
    IF k > Len(s) THEN k - 1
    ELSE IF s[k] = q THEN k
    ELSE IF s[k] = 10 THEN k - 1
    ELSE IF s[k] = 92 THEN (IF k + 1 <= Len(s) /\ s[k + 1] # 10 THEN QuotedEnd(s, k + 2, q) ELSE k - 1)
    ELSE QuotedEnd(s, k + 1, q)

RECURSIVE LineEnd(_, _)
LineEnd(s, k) == IF k > Len(s) \/ s[k] = 10 THEN k - 1 ELSE LineEnd(s, k + 1)

(* lex_string / lex_char mode machine over s[a..b]; mode: 0 InContents, 1 StartContents, 2 Escape *)
RECURSIVE SubLex(_, _, _, _, _, _)
SubLex(s, k, b, q, mode, qkind) ==
    IF k > b THEN <<>>
    ELSE LET c == s[k] IN
      IF mode # 2 /\ c = q THEN <<<<qkind, k>>>> \o SubLex(s, k + 1, b, q, 1, qkind)
      ELSE IF mode # 2 /\ c = 92 THEN <<<<"Escape", k>>>> \o SubLex(s, k + 1, b, q, 2, qkind)
      ELSE IF mode = 1 THEN <<<<"StringContents", k>>>> \o SubLex(s, k + 1, b, q, 0, qkind)
      ELSE IF mode = 0 THEN SubLex(s, k + 1, b, q, 0, qkind)
      ELSE SubLex(s, k + 1, b, q, 1, qkind)

(* token starts (kind, first char index) for s from position p on *)
RECURSIVE LexFrom(_, _)
LexFrom(s, p) ==
    IF p > Len(s) THEN <<>>
    ELSE
      LET fixedK == LongestFixed(Keyword, s, p)
          fixedP == LongestFixed(Punct, s, p)
          rx == [k \in 1..Len(RegexKinds) |-> LongestRegex(RegexKinds[k], s, p)]
          bestRx == MaxOf({rx[k] : k \in 1..Len(RegexKinds)})
          rxKind == RegexKinds[CHOOSE k \in 1..Len(RegexKinds) : rx[k] = bestRx /\ \A j \in 1..(k - 1) : rx[j] # bestRx]
          strEnd == IF s[p] \in {34, 39} THEN QuotedEnd(s, p + 1, s[p]) ELSE 0
          comEnd == IF s[p] = 47 /\ p < Len(s) /\ s[p + 1] = 47 THEN LineEnd(s, p) ELSE 0
      IN
      IF comEnd > 0 THEN
          <<<<"CommentLeader", p>>, <<"CommentContents", p + 2>>>> \o LexFrom(s, comEnd + 1)
      ELSE IF strEnd > 0 THEN
          SubLex(s, p, strEnd, s[p], 0, IF s[p] = 34 THEN "DoubleQuote" ELSE "SingleQuote")
            \o LexFrom(s, strEnd + 1)
      ELSE IF fixedK[2] > 0 /\ fixedK[2] >= bestRx THEN
          <<<<fixedK[1], p>>>> \o LexFrom(s, p + fixedK[2])
      ELSE IF bestRx > 0 /\ bestRx >= fixedP[2] THEN
          <<<<rxKind, p>>>> \o LexFrom(s, p + bestRx)
      ELSE IF fixedP[2] > 0 THEN
          <<<<fixedP[1], p>>>> \o LexFrom(s, p + fixedP[2])
      ELSE <<<<"Error", p>>>> \o LexFrom(s, p + 1)

(* convert to <<kind, startByte, endByte>> *)
ModelToks(r) ==
    LET st == LexFrom(r.cp, 1) n == Len(st) b == Bounds(r) IN
    [k \in 1..n |-> <<st[k][1], b[st[k][2]], IF k = n THEN r.len ELSE b[st[k + 1][2]]>>]

ModelAgrees(r) == r.panic # "" \/ Len(r.cp) = 0 \/ ModelToks(r) = r.toks

--------------------------------------------------------------------------------
(* long records (corpus / random texts > 64 bytes) carry no code points: only the tiling by
   byte offsets and the harness-computed character-boundary flag are checked *)
LongOk(r) ==
    LET ts == r.toks n == Len(ts) IN
    /\ r.panic = ""
    /\ r.boundaries_ok
    /\ (n = 0) = (r.len = 0)
    /\ n > 0 => ts[1][2] = 0 /\ ts[n][3] = r.len
    /\ \A k \in 1..n : ts[k][2] <= ts[k][3]
    /\ \A k \in 1..(n - 1) : ts[k][3] = ts[k + 1][2]
    /\ \A k \in 1..n : ts[k][1] \in KeywordKinds \cup PunctKinds \cup
          {"Whitespace", "NonBreakingSpace", "Bool", "Ident", "Int", "Float", "Hex", "Bin",
           "SingleQuote", "DoubleQuote", "Escape", "StringContents", "CommentLeader",
           "CommentContents", "Error"}
    /\ \A k \in 1..n : (ts[k][2] = ts[k][3]) => ts[k][1] = "CommentContents"

IsLong(r) == "long" \in DOMAIN r
Ok(r) == IF IsLong(r) THEN LongOk(r) ELSE PropOk(r)

Init == i = 0
Next == i < Len(Rec) /\ i' = i + 1
Spec == Init /\ [][Next]_vars

Checked ==
    i > 0 =>
      /\ (Ok(Rec[i]) \/ PrintT("BAD " \o ToJson([idx |-> i, why |-> IF IsLong(Rec[i]) THEN "long record" ELSE Why(Rec[i])])))
      /\ (IsLong(Rec[i]) \/ ModelAgrees(Rec[i]) \/ PrintT("DRIFT " \o ToJson([idx |-> i, model |-> ModelToks(Rec[i])])))

(* completeness of the enumeration: as many distinct inputs as the space has *)
Complete ==
    /\ TLCGet("distinct") = Len(Rec) + 1
    /\ (ExpectN > 0 => /\ Len(Rec) = ExpectN
                       /\ Cardinality({Rec[k].cp : k \in 1..Len(Rec)}) = ExpectN)
================================================================================
