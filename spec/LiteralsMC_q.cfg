SPECIFICATION Spec
CONSTANTS
  Full = FALSE
INVARIANTS Emitted Sane
CHECK_DEADLOCK FALSE
