-------------------------------- MODULE MutHeap --------------------------------
(***************************************************************************)
(* C14, second half: "... are accepted and their effect is visible through *)
(* every alias".  The objects the place chains of Mutability.tla walk over, *)
(* as a heap of named cells.  A location is a sequence <<object, step, ..>>. *)
(*                                                                         *)
(*   in the tested function f:   s, lm, li (copies of s), t1, t2, a1, a2    *)
(*   pointer locals:             vm vi cm am -> s ;  ii mi -> vi ; im mm -> vm *)
(*   in its caller:              w (and ps, f's by-value copy of w),       *)
(*                               mt1 mt2 ma1 ma2, wi wm -> w               *)
(*   parameters:                 qm qi -> w ; qii qmi -> wi ; qmm -> wm     *)
(*   pointer fields of an S:     pm -> t1, pi -> t2, pma -> a1, pia -> a2   *)
(*                               (mt1 .. ma2 for the caller's w and ps)    *)
(***************************************************************************)
EXTENDS Naturals, Sequences

OfCaller(o) == o \in {"w", "ps"}

PtrVarTarget == [vm |-> <<"s">>, vi |-> <<"s">>, cm |-> <<"s">>, am |-> <<"s">>,
                 fi |-> <<"s">>, fm |-> <<"s">>,
                 qm |-> <<"w">>, qi |-> <<"w">>,
                 ii |-> <<"vi">>, im |-> <<"vm">>, mi |-> <<"vi">>, mm |-> <<"vm">>,
                 qii |-> <<"wi">>, qmi |-> <<"wi">>, qmm |-> <<"wm">>,
                 wi |-> <<"w">>, wm |-> <<"w">>]

(* the location a pointer-typed location points at *)
Target(loc) ==
    IF Len(loc) = 1 THEN PtrVarTarget[loc[1]]
    ELSE LET f == loc[Len(loc)]
             c == OfCaller(loc[1]) IN
         CASE f = "pm"  -> IF c THEN <<"mt1">> ELSE <<"t1">>
           [] f = "pi"  -> IF c THEN <<"mt2">> ELSE <<"t2">>
           [] f = "pma" -> IF c THEN <<"ma1">> ELSE <<"a1">>
           [] f = "pia" -> IF c THEN <<"ma2">> ELSE <<"a2">>

RECURSIVE TargetN(_, _)
TargetN(loc, n) == IF n = 0 THEN loc ELSE TargetN(Target(loc), n - 1)

(* initial contents of the i32 cells *)
InitVal(loc) ==
    LET o == loc[1]
        p == Tail(loc)
        b == IF OfCaller(o) THEN 100 ELSE 0 IN
    CASE o \in {"s", "lm", "li", "ps", "w"} ->
            (CASE p = <<"a">> -> b + 1
               [] p = <<"arr", "0">> -> b + 2
               [] p = <<"inner", "v">> -> b + 4
               [] p = <<"o", "v">> -> b + 5)
      [] o = "gg" -> (CASE p = <<"a">> -> 21 [] p = <<"arr", "0">> -> 22 [] p = <<"inner", "v">> -> 24)
      [] o = "t1" -> 11  [] o = "t2" -> 12  [] o = "a1" -> 13  [] o = "a2" -> 15
      [] o = "mt1" -> 111 [] o = "mt2" -> 112 [] o = "ma1" -> 113 [] o = "ma2" -> 115

(* one store: exactly the written cell changes *)
NewVal(op, loc) == IF op = "compound" THEN InitVal(loc) + 1 ELSE 7
After(op, wloc, loc) == IF loc = wloc THEN NewVal(op, wloc) ELSE InitVal(loc)
================================================================================
