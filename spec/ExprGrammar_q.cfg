SPECIFICATION Spec
CONSTANTS
  Depth3 = FALSE
  Emit = TRUE
INVARIANTS PrintInjective Emitted
CHECK_DEADLOCK FALSE
