------------------------------- MODULE TyUniverse -------------------------------
(* prints the type universes as JSON for the harness *)
EXTENDS Ty, TLC, Json
VARIABLE x
Init == x = 0 /\ PrintT("UNIV1 " \o ToJson(Depth1)) /\ PrintT("UNIV2 " \o ToJson(Depth2))
                 /\ PrintT("UNIV3 " \o ToJson(Depth3))
Next == FALSE /\ x' = x
Spec == Init /\ [][Next]_x
================================================================================
